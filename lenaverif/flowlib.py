"""Stage descriptors of spec/Flow.tla -> real lena elements; projection of real values
onto the abstract values of the spec."""
import contextlib
import io
import itertools
import random
import signal

NONE = -1000


def _n(x):
    return None if x == NONE else x


def has_ctx(v):
    return isinstance(v, tuple) and len(v) == 2 and isinstance(v[1], dict)


def data_of(v):
    return v[0] if has_ctx(v) else v


BRANCH_NEST = [0]   # grouping used for Sequence-object branches of a Split (see build_stage "seqsum")
NONE_D = -999    # spec/FlowSem.tla NoneD: the data value None
# spec/FlowSem.tla FalseD, EStrD, EDictD, EListD, ETupD: data values that look like "nothing"
FALSE_D, ESTR_D, EDICT_D, ELIST_D, ETUP_D = -2010, -2020, -2030, -2040, -2050


def num(d):
    """Data value -> the integer that stands for it in the specification."""
    if d is None:
        return NONE_D
    if d is False:
        return FALSE_D
    if isinstance(d, str) and d == "":
        return ESTR_D
    if isinstance(d, dict) and not d:
        return EDICT_D
    if isinstance(d, list) and not d:
        return ELIST_D
    if isinstance(d, tuple) and not d:
        return ETUP_D
    return d


def special_flow(n):
    """spec/FlowSem.tla SpecialFlow (fresh objects): values an implementation may confuse with "nothing"."""
    import collections
    vals = [0, None, {}, (None, {}), False, ("", {}), [], (0, {}), (), (1, {"a": 1}),
            _Pair(2, collections.OrderedDict(a=1))]     # a tuple subclass with a dict subclass: a pair as well
    return vals[:n]


_Pair = __import__("collections").namedtuple("_Pair", ["data", "context"])


def project(v):
    """Real flow value -> {d, c (sorted marks), h}."""
    h = has_ctx(v)
    d, ctx = (v[0], v[1]) if h else (v, {})
    d = num(d)
    marks = []
    for k in ctx:
        if k == "count":
            marks.append("count=%d" % ctx[k])
        else:
            marks.append(str(k))
    return {"d": d, "c": sorted(marks), "h": h}


def norm_spec_val(v):
    return {"d": v["d"], "c": sorted(v["c"]), "h": v["h"]}


def make_value(i, pairs):
    return (i, {}) if pairs else i


def make_flow(n, pairs, base=0, vals="nat"):
    """The flow of a scenario of spec/Flow.tla as a fresh list."""
    if vals == "special":
        return special_flow(n)
    return [make_value(i + base, pairs) for i in range(n)]


class OnlyIter(object):
    """A re-iterable object that has nothing but __iter__ (every call gives a fresh generator)."""

    def __init__(self, vals):
        self._vals = vals

    def __iter__(self):
        return (v for v in self._vals)


class OnlyGetItem(object):
    """An iterable through the old sequence protocol (__getitem__ only)."""

    def __init__(self, vals):
        self._vals = vals

    def __getitem__(self, i):
        return self._vals[i]


def iterator_class(vals):
    """A callable that is a class: each call makes a new iterator over the flow."""
    class FlowIter(object):
        def __init__(self):
            self._it = iter(list(vals))

        def __iter__(self):
            return self

        def __next__(self):
            return next(self._it)
        next = __next__
    return FlowIter


FLOW_KINDS = ("iter", "list", "tuple", "gen", "iterable", "getitem", "deque", "range")


def hand_over(flow, kind):
    """The list *flow* handed over as an iterator, a generator or one of several containers."""
    import collections
    if kind == "iter":
        return iter(flow)
    if kind == "list":
        return list(flow)
    if kind == "tuple":
        return tuple(flow)
    if kind == "gen":
        return (v for v in list(flow))
    if kind == "iterable":
        return OnlyIter(list(flow))
    if kind == "getitem":
        return OnlyGetItem(list(flow))
    if kind == "deque":
        return collections.deque(flow)
    if kind == "range":
        assert flow == list(range(len(flow)))
        return range(len(flow))
    raise ValueError(kind)


def reusable(st):
    """spec/FlowSem.tla Reusable: the element keeps nothing between runs."""
    t = st["t"]
    if t in ("map", "nodata", "filter", "slice", "lagk", "lastk", "nslice", "runif", "reverse", "end"):
        return True
    if t == "split":
        return all(reusable(b) for b in st["brs"])
    if t in ("seqbr", "runifs"):
        return all(reusable(b) for b in st["body"])
    if t == "hosted":
        return reusable(st["el"])
    return False


def kind_name(st):
    """Name of a stage in violation keys."""
    if st["t"] == "bad":
        return "bad:" + st["k"]
    if st["t"] == "hosted":
        return "%s-as-%s" % (kind_name(st["el"]), st["h"])
    if st["t"] == "split" and not st.get("cb", True):
        return "split-nocopy"
    if st["t"] == "nodata" and st.get("k"):
        return "nodata-" + st["k"]
    return st["t"]


# ---- spec/FlowSem.tla Hosted(h, el): the element el as an object whose class is also something else
_Params = __import__("collections").namedtuple("Params", ["scale", "shift"])
_Funcs = __import__("collections").namedtuple("Funcs", ["neg", "pos"])


class EqAll(object):
    """compares equal to every object"""

    def __eq__(self, other):
        return True

    def __ne__(self, other):
        return False
    __hash__ = object.__hash__


def host(el, h):
    """The real element *el* (has run / is callable / has fill and compute) presented by an object of a class
    derived from a named tuple ("nt": fields are numbers, "ntf": fields are other callables), a list (holding
    another callable), a dict (empty: the object is false) or a class whose instances equal everything.
    Only the element interface of *el* is forwarded, as adapters.Run looks for it: run, else __call__,
    else fill + compute."""
    other = _map_callable("dbl")
    base, args = {"nt": (_Params, (2, 1)), "ntf": (_Funcs, (other, other)), "list": (list, ([other],)),
                  "dict": (dict, ()), "eq": (EqAll, ())}[h]
    if callable(getattr(el, "run", None)):
        methods = {"run": lambda self, flow: el.run(flow)}
    elif callable(el):
        methods = {"__call__": lambda self, value: el(value)}
    else:
        methods = {"fill": lambda self, value: el.fill(value), "compute": lambda self: el.compute()}
    methods["__doc__"] = "element hosted by a %s subclass" % base.__name__
    return type("Hosted_" + h, (base,), methods)(*args)


class Last(object):
    """User fill/compute element: yields the last filled value."""

    def __init__(self):
        self.has = False
        self.prev = None

    def fill(self, v):
        self.has, self.prev = True, v

    def compute(self):
        if self.has:
            yield self.prev


class LastAttr(Last):
    """The same with a data attribute named like a method (a run number, say): still a fill/compute element."""
    run = "2023A"


def _inc(v):
    return (num(v[0]) + 1, v[1]) if has_ctx(v) else num(v) + 1


class IncClass(object):
    """A callable that is a class: calling it returns the transformed value."""

    def __new__(cls, v):
        return _inc(v)


class IncHolder(object):
    def __init__(self, k):
        self.k = k

    def apply(self, v):
        return (num(v[0]) + self.k, v[1]) if has_ctx(v) else num(v) + self.k


class StageError(ValueError):
    pass


def raiser(at, e):
    """A plain callable: the identity, but it raises for the value whose data is *at* (spec Raiser(at, e))."""
    def stop(v):
        return next(iter(()))          # StopIteration, like next() on another, shorter stream

    def value(v):
        raise StageError("bad value")

    def lena_exc(v):
        import lena.core
        raise lena.core.LenaValueError("bad value")
    fail = {"stop": stop, "value": value, "lena": lena_exc}[e]

    def identity_or_raise(v):
        if num(data_of(v)) == at:
            return fail(v)
        return v
    return identity_or_raise


TUPLE_BAD = ("tup_acc", "tup_acc1", "tup_count", "tup_f")      # a single tuple argument is documented as allowed


def _map_callable(f):
    if f == "cls":
        return IncClass
    if f == "meth":
        return IncHolder(1).apply          # a bound method
    if f == "part":
        import functools
        return functools.partial(IncHolder.apply, IncHolder(1))

    def inc(v):
        return (num(v[0]) + 1, v[1]) if has_ctx(v) else num(v) + 1

    def dbl(v):
        return (num(v[0]) * 2, v[1]) if has_ctx(v) else num(v) * 2

    def nul(v):
        """None for odd bare data (a function called for its side effect, dict.get, re.match ...)."""
        if has_ctx(v) or num(v) % 2 == 0:
            return v
        return None

    def tag(v):
        d, c = (v[0], v[1]) if has_ctx(v) else (v, {})
        c2 = dict(c)
        c2["t"] = 1
        return (d, c2)
    return {"inc": inc, "dbl": dbl, "tag": tag, "nul": nul}[f]


def _pred(p):
    return {"even": lambda v: num(data_of(v)) % 2 == 0, "lt2": lambda v: num(data_of(v)) < 2,
            "none": lambda v: False, "all": lambda v: True}[p]


class NoRun(object):
    pass


class RunNotCallable(object):
    """has a `run` attribute that is not callable (like the None-valued method slots of lena's own adapters)"""
    run = None


class RunIsData(object):
    run = 5


class FillOnly(object):
    """half of the fill/compute interface"""

    def fill(self, value):
        pass


class FillComputeData(object):
    """fill and compute exist but are data attributes"""
    fill = 1
    compute = "c"


class FillRequestOnly(object):
    """a fill/request element: not convertible to a Run element"""

    def fill(self, value):
        pass

    def request(self):
        return iter(())


def build_branch(br, pairs, use_context_el):
    """A branch of a Split.  BRANCH_NEST[0] selects one of the equivalent ways to write it."""
    import lena.core, lena.math
    S = lena.core.Sequence
    k = BRANCH_NEST[0] % 4
    if br["t"] == "seqsum":
        # the branch (f, Sum()) as a Sequence object, in one of its groupings into nested Sequences
        f, acc = _map_callable(br["f"]), lena.math.Sum()
        return [S(f, acc), S(f, S(acc)), S(S(f), acc), S(S(f), S(S(acc)))][k]
    if br["t"] == "fcsum":
        # the tuple (f, Sum()): a fill/compute sequence (also given as the FillComputeSeq it becomes)
        f, acc = _map_callable(br["f"]), lena.math.Sum()
        return [(f, acc), lena.core.FillComputeSeq(f, acc), (f, acc), lena.core.FillComputeSeq(f, acc)][k]
    if br["t"] == "seqbr":
        els = [build_stage(x, pairs, use_context_el) for x in br["body"]]
        if BRANCH_NEST[0] % 5 == 4:
            return (S(els[0]),) + tuple(els[1:])       # a tuple branch that holds a nested Sequence
        if k == 0:
            return S(*els)
        if k == 1:
            return tuple(els) if len(els) > 1 else els[0]
        if k == 2:
            return S(S(els[0]), *els[1:])
        return S(S(*els))
    return build_stage(br, pairs, use_context_el)


def build_stage(st, pairs=True, use_context_el=False):
    """One fresh real element for a stage descriptor."""
    import lena.core, lena.flow, lena.math, lena.context, lena.variables, lena.output
    t = st["t"]
    if t == "nodata":
        import lena.meta
        if st.get("k") == "store":
            return lena.meta.StoreContext()
        if st.get("k") == "set2":
            return lena.meta.SetContext("d.e", "f")
        return lena.meta.SetContext("s", 1)
    if t == "hosted":
        return host(build_stage(st["el"], pairs, use_context_el), st["h"])
    if t == "nslice":
        a, b, s = _n(st["a"]), _n(st["b"]), _n(st["s"])
        if a is None and s == 1:
            return lena.flow.Slice(b)
        if s == 1:
            return lena.flow.Slice(a, b)
        return lena.flow.Slice(a, b, s)
    if t == "lastattr":
        return LastAttr()
    if t == "raiser":
        return raiser(st["at"], st["e"])
    if t == "runifs":
        # RunIf(select, e1, ..., en): the arguments in one of their bracketings into nested Sequences
        S = lena.core.Sequence
        els = [build_stage(x, pairs, use_context_el) for x in st["body"]]
        a, rest = els[0], els[1:]
        args = [els, [S(*els)], [S(a)] + rest, [S(a)] + [S(x) for x in rest], [a] + [S(*rest)] if rest else [S(S(a))],
                [S()] + els, [S(S(a))] + rest][BRANCH_NEST[0] % 7]
        return lena.flow.RunIf(_pred(st["p"]), *args)
    if t == "map":
        f = st["f"]
        if f in ("inc", "dbl", "tag", "nul", "cls", "meth", "part"):
            return _map_callable(f)
        if f == "print":
            return lena.flow.Print(transform=lambda x: "")
        if f == "id":
            return lena.context.Context() if (pairs and use_context_el) else lena.flow.Print(transform=lambda x: "")
        if f == "var":
            return lena.variables.Variable("x", lambda d: d + 10)
        if f == "varattr":
            # description keys named like element methods are data attributes of the variable
            return lena.variables.Variable("x", lambda d: num(d) + 10, run="2023A", fill=1, compute="c", request=0)
        if f == "upd":
            return lena.context.UpdateContext("k", 1)
        if f == "mkfn":
            return lena.output.MakeFilename("out")
    if t == "filter":
        return lena.flow.Filter(_pred(st["p"]))
    if t == "slice":
        a, b, s = _n(st["a"]), _n(st["b"]), _n(st["s"])
        return lena.flow.Slice(a, b, s)
    if t == "lagk":
        return lena.flow.Slice(-st["k"])
    if t == "lastk":
        return lena.flow.Slice(-st["k"], None)
    if t == "count":
        return lena.flow.Count()
    if t == "runif":
        if st["f"] == "bad":
            return lena.flow.RunIf(_pred(st["p"]), 5)      # must raise LenaTypeError here
        inner = lena.flow.Filter(lambda v: False) if st["f"] == "drop" else _map_callable(st["f"])
        return lena.flow.RunIf(_pred(st["p"]), inner)
    if t == "reverse":
        return lena.flow.Reverse()
    if t == "end":
        return lena.flow.End()
    if t == "sum":
        return lena.math.Sum()
    if t == "last":
        return Last()
    if t in ("seqsum", "fcsum", "seqbr"):
        return build_branch(st, pairs, use_context_el)
    if t == "split":
        if st.get("cb", True):      # the default of copy_buf
            return lena.core.Split([build_branch(b, pairs, use_context_el) for b in st["brs"]], bufsize=_n(st["bs"]))
        return lena.core.Split([build_branch(b, pairs, use_context_el) for b in st["brs"]], bufsize=_n(st["bs"]),
                               copy_buf=False)
    if t == "bad":
        inc, dbl = _map_callable("inc"), _map_callable("dbl")
        make = {"int": lambda: 5, "str": lambda: "abc", "obj": NoRun, "none": lambda: None, "dict": dict,
                "runnone": RunNotCallable, "rundata": RunIsData,
                "zero": lambda: 0, "estr": lambda: "", "edict": dict, "elist": list, "false": lambda: False,
                "float": lambda: 2.5, "fillonly": FillOnly, "fillattr": FillComputeData, "fillreq": FillRequestOnly,
                # containers that hold elements
                "tup_acc": lambda: (inc, lena.math.Sum()), "tup_acc1": lambda: (lena.math.Sum(),),
                "list_acc": lambda: [lena.math.Mean()], "list_facc": lambda: [inc, lena.flow.StoreFilled()],
                "tup_count": lambda: (lena.flow.Count(),), "list_f": lambda: [inc],
                "tup_f": lambda: (inc, dbl), "set_acc": lambda: {Last()},
                "dict_acc": lambda: {"a": lena.math.Sum()}, "list_run": lambda: [lena.flow.Slice(1)]}
        return make[st["k"]]()
    raise ValueError("unknown stage %r" % (st,))


def shapes(n):
    """Bracketings of a list of n elements: nested lists of indices (a list = a nested Sequence)."""
    flat = list(range(n))
    res = [flat]
    for i in range(n):
        for j in range(i + 1, n + 1):
            res.append(flat[:i] + [flat[i:j]] + flat[j:])
    if n >= 2:
        # two levels of nesting
        res.append([[[0], flat[1:]]])
        res.append([[flat[:-1], [n - 1]]])
    if n >= 3:
        res.append([[[0, 1]], [[2]]] + flat[3:])
        res.append([0, [[1], [2]]] + flat[3:])
    res.append([[]] + flat)        # an empty nested Sequence is the identity
    res.append(flat + [[], []])
    return res


def nest(els, shape):
    import lena.core
    out = []
    for x in shape:
        if isinstance(x, list):
            out.append(lena.core.Sequence(*nest(els, x)))
        else:
            out.append(els[x])
    return out


class Watchdog(Exception):
    pass


@contextlib.contextmanager
def time_limit(seconds):
    def handler(signum, frame):
        raise Watchdog()
    old = signal.signal(signal.SIGALRM, handler)
    signal.setitimer(signal.ITIMER_REAL, seconds)
    try:
        yield
    finally:
        signal.setitimer(signal.ITIMER_REAL, 0)
        signal.signal(signal.SIGALRM, old)


@contextlib.contextmanager
def quiet():
    with contextlib.redirect_stdout(io.StringIO()):
        yield


@contextlib.contextmanager
def quiet_warnings():
    import warnings
    with warnings.catch_warnings():
        warnings.simplefilter("ignore")
        yield


# ------------------------------------------------------------------ random programs (C2S)
def random_stage(rnd, alphabet):
    k = rnd.choice(alphabet)
    if k == "map":
        return {"t": "map", "f": rnd.choice(["inc", "dbl", "tag", "var", "varattr", "upd", "mkfn", "id"])}
    if k == "filter":
        return {"t": "filter", "p": rnd.choice(["even", "lt2", "none", "all"])}
    if k == "slice":
        a = rnd.randint(0, 4)
        b = NONE if rnd.random() < 0.3 else rnd.randint(0, 8)
        return {"t": "slice", "a": a, "b": b, "s": rnd.randint(1, 3)}
    if k in ("lagk", "lastk"):
        return {"t": k, "k": rnd.randint(1, 3)}
    if k == "runif":
        return {"t": "runif", "p": rnd.choice(["even", "lt2", "all"]), "f": rnd.choice(["inc", "dbl", "drop"])}
    if k == "nodata":
        return {"t": "nodata"}
    if k == "print":
        return {"t": "map", "f": "print"}
    if k == "nslice":
        pat = rnd.choice(["A", "B", "C1", "C2", "C3", "C4"])
        p, q = rnd.randint(1, 3), rnd.randint(1, 3)
        a, b = {"A": (NONE, -p), "B": (p - 1, -q), "C1": (-p, NONE), "C2": (-p, -p - q + 1),
                "C3": (-p - q, -p), "C4": (-p, q - 1)}[pat]
        return {"t": "nslice", "a": a, "b": b, "s": rnd.randint(1, 3)}
    if k == "lagslice":      # the streaming sign patterns only (negative stop, C2, C4 with an early exit)
        p, q = rnd.randint(1, 3), rnd.randint(1, 3)
        a, b = rnd.choice([(NONE, -p), (p - 1, -q), (-p, -p - q + 1)])
        return {"t": "nslice", "a": a, "b": b, "s": rnd.randint(1, 3)}
    if k == "splitx":
        st = random_stage(rnd, ["splitx_"])
        st["cb"] = rnd.random() < 0.6          # copy_buf
        return st
    if k == "splitx_":
        c = rnd.choice(["empty", "none", "big", "seq", "nested", "fc"])
        if c == "empty":
            return {"t": "split", "brs": [], "bs": rnd.randint(1, 3)}
        if c == "none":
            return {"t": "split", "brs": [{"t": "map", "f": "inc"}], "bs": NONE}
        if c == "big":
            return {"t": "split", "brs": [{"t": "filter", "p": "even"}, {"t": "map", "f": "dbl"}], "bs": 1000}
        if c == "seq":
            body = [rnd.choice([{"t": "filter", "p": "even"}, {"t": "map", "f": "inc"},
                                {"t": "slice", "a": 0, "b": 1, "s": 1},
                                {"t": "runif", "p": "even", "f": "dbl"}]) for _ in range(rnd.randint(1, 3))]
            return {"t": "split", "brs": [{"t": "seqbr", "body": body}, {"t": "map", "f": "inc"}], "bs": rnd.randint(1, 4)}
        if c == "nested":
            inner = {"t": "split", "brs": [{"t": "map", "f": "dbl"}, {"t": "filter", "p": "lt2"}], "bs": rnd.randint(1, 2)}
            return {"t": "split", "brs": [{"t": "seqbr", "body": [inner]}], "bs": rnd.randint(1, 4)}
        return {"t": "split", "brs": [{"t": "fcsum", "f": "inc"}, {"t": "map", "f": "inc"}], "bs": rnd.randint(1, 3)}
    if k == "split":
        brs = []
        for _ in range(rnd.randint(1, 3)):
            c = rnd.choice(["map", "filter", "sum"])
            brs.append({"t": "map", "f": rnd.choice(["inc", "dbl"])} if c == "map" else
                       {"t": "filter", "p": rnd.choice(["even", "lt2"])} if c == "filter" else {"t": "sum"})
        return {"t": "split", "brs": brs, "bs": rnd.randint(1, 4), "cb": rnd.random() < 0.5}
    if k == "hosted":
        el = random_stage(rnd, ["map", "filter", "slice", "count", "sum", "runif"])
        return {"t": "hosted", "h": rnd.choice(["nt", "ntf", "list", "dict", "eq"]), "el": el}
    return {"t": k}
