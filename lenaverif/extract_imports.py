"""Extraction of the constants of spec/Imports.tla from the source tree under test (C20).

For every module of the package `lena` below <repo> an AST + symtable pass produces

  body      the ordered import-time statements of the module body (class bodies inlined):
              import  `import a.b.c [as x]`           (only modules of the tree; others become def)
              from    `from a.b import n [as x]`      one statement per imported name
              star    `from a.b import *`
              def     a name bound at module level (assignment, def, class, external import)
              del     `del name`
              use     a name / attribute chain evaluated while the body runs (bases, decorators,
                      defaults, module level expressions, class bodies)
              fail    an import of an external module that is not available and not guarded
            after pruning code that is dead for the running interpreter (constant folding of
            sys.version_info tests, short-circuit and/or, elif after an always-true test,
            `if __name__ == "__main__"`), and after resolving try/except ImportError around imports
            of external modules by looking whether the external module is importable.
  all       the literal value of __all__ (if assigned)
  funcs     for every function-like scope that runs at call time (functions, methods, module/class
            level lambdas; nested scopes are merged into the outermost one): the global names it
            loads (symtable decides what is global), the attribute chains rooted at a global name or
            at a name bound by an import statement inside the function, and its import statements.
            References guarded by `except NameError` are left out; chains below `except AttributeError`
            (or broader) are kept with guard "A" (the model excuses them unless the missing link is a
            submodule of the tree); dead branches are pruned as above.
  dyndefs   names a function may create in the module namespace (`global x` + assignment).
  refl      per function: references to a name of a module namespace by a *computed* string
            (getattr(M, e), M.__dict__[e], vars(M)[e], globals()[e], sys.modules[__name__]): the chain that
            gives the namespace, the strings e can evaluate to (reflnames.py: literal pieces and holes,
            holes bounded by the code or instantiated over a small universe of argument values), the
            exception classes enclosing handlers catch, whether the presence of the name is tested.
            getattr(M, "literal") is the static chain M.literal.
  dynstore  modules into whose namespace some function stores names it computes (globals()[e] = v,
            setattr(M, e, v)): reflective loads from them are not judged.

Nothing is imported from the tree under test; only external modules named in import statements are
probed with importlib (to decide which branch of a try/except ImportError runs).
"""
from __future__ import print_function

import ast
import builtins
import importlib
import os
import symtable
import sys

from . import localflow
from . import reflnames

OBJ = "<obj>"
EXT = "<ext>"
PKG = "lena"


class ExtractError(Exception):
    """The tree contains a construct the extractor cannot model."""


class _ImportFails(Exception):
    def __init__(self, what, line, kind="ModuleNotFoundError"):
        Exception.__init__(self, what)
        self.what = what
        self.line = line
        self.kind = kind


# --------------------------------------------------------------------------- constant folding
def _only_version_names(node):
    for n in ast.walk(node):
        if isinstance(n, ast.Name):
            if n.id not in ("sys", "os"):
                return False
        elif isinstance(n, ast.Attribute):
            # sys.version_info[.major/minor/micro], sys.platform, os.name, ... and str tests on them
            if n.attr not in ("version_info", "major", "minor", "micro", "platform", "name", "maxsize", "byteorder",
                              "hexversion", "startswith", "endswith"):
                return False
        elif isinstance(n, ast.Call):
            if not (isinstance(n.func, ast.Attribute) and n.func.attr in ("startswith", "endswith")):
                return False
        elif isinstance(n, (ast.Lambda, ast.Starred, ast.Await, ast.Yield, ast.YieldFrom,
                            ast.ListComp, ast.SetComp, ast.DictComp, ast.GeneratorExp, ast.NamedExpr)):
            return False
    return any(isinstance(n, ast.Name) for n in ast.walk(node))


def fold(node):
    """True / False when the truth value of the expression is fixed for this interpreter, else None."""
    if isinstance(node, ast.Constant):
        try:
            return bool(node.value)
        except Exception:   # noqa
            return None
    if isinstance(node, ast.UnaryOp) and isinstance(node.op, ast.Not):
        v = fold(node.operand)
        return None if v is None else (not v)
    if isinstance(node, ast.BoolOp):
        vals = [fold(v) for v in node.values]
        if isinstance(node.op, ast.And):
            if any(v is False for v in vals):
                return False
            return True if all(v is True for v in vals) else None
        if any(v is True for v in vals):
            return True
        return False if all(v is False for v in vals) else None
    if isinstance(node, ast.Compare):
        # __name__ == "__main__" is false in an imported module
        if (len(node.ops) == 1 and isinstance(node.left, ast.Name) and node.left.id == "__name__"
                and isinstance(node.comparators[0], ast.Constant) and node.comparators[0].value == "__main__"):
            if isinstance(node.ops[0], ast.Eq):
                return False
            if isinstance(node.ops[0], ast.NotEq):
                return True
        if _only_version_names(node):
            try:
                return bool(eval(compile(ast.Expression(body=node), "<fold>", "eval"), {"sys": sys, "os": os, "__builtins__": {}}))
            except Exception:   # noqa
                return None
    return None


# --------------------------------------------------------------------------- external modules
_ext_cache = {}


def ext_available(modname, attr=None):
    key = (modname, attr)
    if key not in _ext_cache:
        try:
            m = importlib.import_module(modname)
            ok = True if attr is None else hasattr(m, attr)
            if not ok and attr is not None:
                try:
                    importlib.import_module(modname + "." + attr)
                    ok = True
                except ImportError:
                    ok = False
        except Exception:   # noqa  (ImportError and whatever a broken optional dependency raises)
            ok = False
        _ext_cache[key] = ok
    return _ext_cache[key]


def _is_internal(name):
    return name == PKG or name.startswith(PKG + ".")


def _prefixes(name):
    parts = name.split(".")
    return [".".join(parts[:i]) for i in range(1, len(parts) + 1)]


def _catches(handler, names):
    """Does the except clause catch one of the exception classes *names* (by simple name)?"""
    t = handler.type
    if t is None:
        return True
    elts = t.elts if isinstance(t, ast.Tuple) else [t]
    for e in elts:
        n = e.id if isinstance(e, ast.Name) else (e.attr if isinstance(e, ast.Attribute) else None)
        if n in names:
            return True
    return False


_NAMEERR = ("NameError", "Exception", "BaseException")
_ATTRERR = ("AttributeError", "Exception", "BaseException")
_IMPERR = ("ImportError", "ModuleNotFoundError", "Exception", "BaseException")
_KEYERR = ("KeyError", "LookupError", "Exception", "BaseException")
# attributes every module object has through its type (not entries of its namespace): a chain leaves the
# module namespaces of the model there
_TYPE_ATTRS = (frozenset(dir(type(sys))) | frozenset(["__dict__"])) - frozenset(
    ["__doc__", "__name__", "__file__", "__path__", "__package__", "__spec__", "__loader__", "__cached__", "__builtins__"])


# --------------------------------------------------------------------------- statements
def stmt(op, line, mod="", pre=(), name="", sub="", bind="", val="", root="", rv="", links=(), to=0):
    # hI / hN / hA: position of the handler that runs when this statement raises an ImportError /
    # NameError / AttributeError (0: not caught in this body); to: target of a jump / branch
    return {"op": op, "mod": mod, "pre": list(pre), "name": name, "sub": sub, "bind": bind, "val": val,
            "root": root, "rv": rv, "links": list(links), "line": line, "hI": 0, "hN": 0, "hA": 0, "to": to}


class _Label(object):
    """Position of a handler in a module body, known only after the try body has been emitted."""

    def __init__(self):
        self.pc = None


class _Env(object):
    """One lexical scope during the walk."""

    def __init__(self, table, kind, calltime, func=None, parent=None):
        self.table = table
        self.kind = kind            # module | class | function | comp
        self.calltime = calltime    # code of this scope runs when a function is called
        self.func = func            # function record collecting call-time references
        self.parent = parent
        self.children = list(table.get_children())
        self.localmods = {}         # names bound by import statements inside a function -> module
        self.localfrom = {}         # names bound by `from m import n` inside a function -> (m, n)
        self.guard_name = False
        self.guard_attr = False
        self.guard_key = False
        self.fnode = None           # ast node of the function (call-time scopes)
        self.qual = ""
        self.bound = set()          # comprehension targets (kind == "comp")

    def comp_bound(self, name):
        e = self
        while e is not None:
            if e.kind == "comp" and name in e.bound:
                return True
            e = e.parent
        return False

    def child_table(self, name, lineno, optional=False):
        for k, c in enumerate(self.children):
            if c.get_name() == name and c.get_lineno() == lineno:
                return self.children.pop(k)
        if optional:
            return None     # comprehension inlined into the enclosing scope (PEP 709)
        for k, c in enumerate(self.children):
            if c.get_name() == name:
                return self.children.pop(k)
        raise ExtractError("no symbol table for scope %s at line %d" % (name, lineno))

    def fnodes(self):
        """The function definitions around this scope, innermost first."""
        out, e = [], self
        while e is not None and e.calltime:
            if e.fnode is not None:
                out.append(e.fnode)
            e = e.parent
        return out

    def lookup_localmod(self, name, table="localmods"):
        e = self
        while e is not None and e.calltime:
            if name in getattr(e, table):
                return getattr(e, table)[name]
            # a name bound in an inner scope hides outer import bindings
            try:
                s = e.table.lookup(name)
                if s.is_local() and e.kind != "comp":
                    return None
            except KeyError:
                pass
            e = e.parent
        return None


class ModuleExtractor(object):
    def __init__(self, modname, path, ispkg, all_modules):
        self.modname = modname
        self.path = path
        self.ispkg = ispkg
        self.all_modules = all_modules
        self.body = []
        self.all = None
        self.funcs = []
        self.dyndefs = set()
        self.dynstore = set()       # modules into whose namespace a function stores computed names
        self.brefl = {}             # id -> lookup by computed name in import-time code (statement "refl")
        self._modscope = None
        self._helpers = None
        self.dynattr = False        # the module defines __getattr__ (PEP 562): any attribute of it may exist
        self.hstack = []            # enclosing try statements of import-time code: {"I" / "N" / "A": _Label or None}
        self.modfuncs = {}          # functions defined at module level: name -> record (calls at import time)
        with open(path) as f:
            self.src = f.read()
        import warnings
        with warnings.catch_warnings():
            warnings.simplefilter("ignore")
            self.tree = ast.parse(self.src, path)
            self.top = symtable.symtable(self.src, path, "exec")

    # ------------------------------------------------------------------ helpers
    def package(self):
        return self.modname if self.ispkg else self.modname.rpartition(".")[0]

    def resolve_from(self, node):
        if node.level == 0:
            return node.module
        base = self.package().split(".")
        if node.level > 1:
            base = base[:len(base) - (node.level - 1)]
        if not base:
            raise ExtractError("%s:%d relative import beyond top-level package" % (self.path, node.lineno))
        return ".".join(base + ([node.module] if node.module else []))

    def new_func(self, qual, line):
        rec = {"id": "%s:%s" % (self.modname, qual), "mod": self.modname, "line": line, "end": line,
               "imports": [], "loads": {}, "chains": {}, "flows": [], "refl": []}
        self.funcs.append(rec)
        return rec

    def add(self, st):
        """Append an import-time statement; it is protected by the nearest enclosing handlers."""
        for cls in "INA":
            for ctx in reversed(self.hstack):
                if ctx[cls] is not None:
                    st["h" + cls] = ctx[cls]
                    break
        self.body.append(st)
        return st

    def emit(self, env, st):
        """An import-time statement (module body) or a call-time import (function record)."""
        if env.calltime:
            if st["op"] in ("import", "from", "star", "fail"):
                env.func["imports"].append(st)
        else:
            self.add(st)

    # ------------------------------------------------------------------ references
    def ref_name(self, env, name, line):
        """A Name load."""
        if env.comp_bound(name):
            return
        if env.calltime:
            if env.lookup_localmod(name) is not None:
                return
            try:
                sym = env.table.lookup(name)
            except KeyError:
                return
            if sym.is_global() and not env.guard_name:
                env.func["loads"].setdefault(name, line)
        else:
            if env.kind == "module":
                glob = True
            else:
                try:
                    sym = env.table.lookup(name)
                    glob = sym.is_global()
                except KeyError:
                    glob = False
            if glob and not env.guard_name:
                self.add(stmt("use", line, root=name))

    def ref_chain(self, env, root, links, line):
        """root.l1.l2... evaluated (all links are loads)."""
        self.ref_name(env, root, line)
        for k, ln in enumerate(links):
            if ln in _TYPE_ATTRS:
                links = links[:k]       # M.__dict__, M.__class__: not a name of the namespace of M
                break
        if not links or env.comp_bound(root) or (env.guard_attr and not env.calltime):
            return
        if env.calltime:
            rv = env.lookup_localmod(root)
            if rv is None:
                try:
                    sym = env.table.lookup(root)
                except KeyError:
                    return
                if not sym.is_global():
                    return
                rv = ""
            # a chain below a handler that catches AttributeError is kept with guard "A": the handler excuses a
            # missing plain attribute, not a missing SUBMODULE of the tree (that link depends on what has been
            # imported, so the handler would run in one import state and not in another: Imports.tla BadChains)
            key = (root, rv, tuple(links))
            env.func["chains"].setdefault(key, line)
            if not env.guard_attr:
                env.func.setdefault("chains_plain", set()).add(key)
        else:
            if env.kind != "module":
                try:
                    if not env.table.lookup(root).is_global():
                        return
                except KeyError:
                    return
            self.add(stmt("use", line, root=root, links=links))

    # ------------------------------------------------------------------ reflective references
    def _sys_modules_item(self, node):
        """sys.modules[__name__] / sys.modules["lena.x.y"]: the module, else None."""
        if not (isinstance(node, ast.Subscript) and isinstance(node.value, ast.Attribute)
                and node.value.attr == "modules" and isinstance(node.value.value, ast.Name)
                and node.value.value.id == "sys"):
            return None
        if isinstance(node.slice, ast.Name) and node.slice.id == "__name__":
            return self.modname
        if isinstance(node.slice, ast.Constant) and node.slice.value in self.all_modules:
            return node.slice.value
        return None

    def module_expr(self, env, node, scope, depth=0):
        """(root, rv, links) of an expression that may evaluate to a module of the tree (read like an attribute
        chain: rv is the module the root is known to be bound to, "" = look the root up in the module namespace),
        or None when the expression is not a chain rooted at a global / import-bound name."""
        links = []
        n = node
        while isinstance(n, ast.Attribute):
            links.append(n.attr)
            n = n.value
        links.reverse()
        if any(ln in _TYPE_ATTRS for ln in links):
            return None
        if self._sys_modules_item(n) is not None:
            return ("", self._sys_modules_item(n), tuple(links))
        if not isinstance(n, ast.Name) or env.comp_bound(n.id):
            return None
        root = n.id
        rv = env.lookup_localmod(root)
        if rv is not None:
            return (root, rv, tuple(links))
        lf = env.lookup_localmod(root, "localfrom")
        if lf is not None:
            return ("", lf[0], (lf[1],) + tuple(links))     # the attribute n of the module m
        if env.kind == "module":
            return (root, "", tuple(links))     # the model knows which module-level names are bound to modules
        try:
            sym = env.table.lookup(root)
        except KeyError:
            return None
        if sym.is_global():
            return (root, "", tuple(links))
        if not env.calltime:
            return None
        if depth < 2:
            # a local alias: mod = lena.output.to_csv; getattr(mod, ...)
            binds = scope.assignments(root)
            if len(binds) == 1 and binds[0][0] == "val":
                inner = self.module_expr(env, binds[0][1], scope, depth + 1)
                if inner is not None:
                    return (inner[0], inner[1], inner[2] + tuple(links))
        return None

    def namespace_expr(self, env, node, scope):
        """The module whose namespace dict the expression is: globals(), vars(M), M.__dict__."""
        if isinstance(node, ast.Call) and isinstance(node.func, ast.Name) and not node.keywords:
            if node.func.id == "globals" and not node.args:
                return ("", self.modname, ())
            if node.func.id == "vars" and len(node.args) == 1:
                return self.module_expr(env, node.args[0], scope)
        elif isinstance(node, ast.Attribute) and node.attr == "__dict__":
            return self.module_expr(env, node.value, scope)
        return None

    def helper(self, name):
        """The function definition of this module with that name, if there is exactly one."""
        if self._helpers is None:
            self._helpers = {}
            for n in ast.walk(self.tree):
                if isinstance(n, (ast.FunctionDef, ast.AsyncFunctionDef)):
                    self._helpers.setdefault(n.name, []).append(n)
        defs = self._helpers.get(name, [])
        return defs[0] if len(defs) == 1 else None

    def scope_of(self, env):
        if env.calltime:
            return reflnames.Scope(env.fnodes(), helpers=self.helper)
        if self._modscope is None:
            self._modscope = reflnames.Scope([self.tree], shallow=True, helpers=self.helper)
        return self._modscope

    def add_refl(self, env, how, chain, name, line, scope):
        alts = reflnames.aeval(name, scope)
        names, is_open = reflnames.instances(alts)
        if how == "getattr":
            names = [n for n in names if n not in _TYPE_ATTRS]

        def enc(x):
            return "".join(c if (" " <= c <= "~" and c not in '"\\') else "?" for c in x)
        catches = [c for c, g in (("AttributeError", env.guard_attr), ("KeyError", env.guard_key)) if g]
        rec = {"root": chain[0], "rv": chain[1], "links": list(chain[2]), "how": how,
               "names": sorted(set(enc(n) for n in names)), "open": bool(is_open),
               "pat": enc(reflnames.pattern(alts)), "catches": catches, "tested": scope.tested(name), "line": line}
        if env.calltime:
            if rec not in env.func["refl"]:
                env.func["refl"].append(rec)
            return
        # import time: the run of the body is one path without arguments; only lookups whose candidate strings the
        # code bounds are modelled, and one that a handler of KeyError protects is left out (AttributeError handlers
        # are positions of the body, see add())
        if rec["open"] or env.guard_attr or (how == "item" and any(c.get("K") is not None for c in self.hstack)):
            return
        key = "%s@%d#%d" % (self.modname, line, len(self.brefl))
        self.brefl[key] = rec
        self.add(stmt("refl", line, name=key))

    def add_dynstore(self, chain):
        """A function stores names it computes into the namespace the chain evaluates to (resolved textually)."""
        if chain is None:
            return
        root, rv, links = chain
        base = rv or root
        cand = ".".join([base] + list(links)) if base else ""
        if cand in self.all_modules:
            self.dynstore.add(cand)

    def reflective_call(self, env, node):
        f = node.func
        if any(isinstance(a, ast.Starred) for a in node.args) or node.keywords:
            return
        scope = self.scope_of(env)
        if isinstance(f, ast.Name) and f.id == "getattr" and len(node.args) == 2:
            # (with a third argument nothing is raised)
            chain = self.module_expr(env, node.args[0], scope)
            if chain is None:
                return
            name = node.args[1]
            if isinstance(name, ast.Constant) and isinstance(name.value, str) and name.value not in _TYPE_ATTRS:
                # the static chain M.name
                if not scope.tested(name) and not env.guard_attr:
                    root, rv, links = chain
                    if root == "":
                        root = "__name__"       # sys.modules[__name__]: rv is this module
                    if env.calltime:
                        env.func["chains"].setdefault((root, rv, tuple(links) + (name.value,)), node.lineno)
                        env.func.setdefault("chains_plain", set()).add((root, rv, tuple(links) + (name.value,)))
                    else:
                        self.add(stmt("use", node.lineno, root=root, rv=rv, links=list(links) + [name.value]))
                return
            self.add_refl(env, "getattr", chain, name, node.lineno, scope)
        elif isinstance(f, ast.Name) and f.id == "setattr" and len(node.args) == 3:
            if not isinstance(node.args[1], ast.Constant):
                self.add_dynstore(self.module_expr(env, node.args[0], scope))
        elif isinstance(f, ast.Attribute) and f.attr in ("update", "setdefault", "__setitem__"):
            self.add_dynstore(self.namespace_expr(env, f.value, scope))

    def reflective_item(self, env, node):
        scope = self.scope_of(env)
        ns = self.namespace_expr(env, node.value, scope)
        if ns is None:
            return
        if isinstance(node.ctx, ast.Load):
            self.add_refl(env, "item", ns, node.slice, node.lineno, scope)
        elif isinstance(node.ctx, ast.Store):
            if isinstance(node.slice, ast.Constant) and isinstance(node.slice.value, str) and ns[1] == self.modname \
                    and not ns[2]:
                self.dyndefs.add(node.slice.value)
            else:
                self.add_dynstore(ns)

    # ------------------------------------------------------------------ expressions
    def expr(self, env, node):
        if node is None:
            return
        if isinstance(node, list):
            for n in node:
                self.expr(env, n)
            return
        if isinstance(node, ast.Name):
            if isinstance(node.ctx, ast.Load):
                self.ref_name(env, node.id, node.lineno)
            return
        if isinstance(node, ast.Attribute):
            links = []
            n = node
            while isinstance(n, ast.Attribute):
                links.append(n.attr)
                n = n.value
            links.reverse()
            if isinstance(n, ast.Name):
                if not isinstance(node.ctx, ast.Load):
                    links = links[:-1]      # the last link is stored / deleted, not loaded
                self.ref_chain(env, n.id, links, node.lineno)
            else:
                self.expr(env, n)
            return
        if isinstance(node, ast.BoolOp):
            for v in node.values:
                self.expr(env, v)
                f = fold(v)
                if (isinstance(node.op, ast.And) and f is False) or (isinstance(node.op, ast.Or) and f is True):
                    break
            return
        if isinstance(node, ast.IfExp):
            self.expr(env, node.test)
            f = fold(node.test)
            if f is not False:
                self.expr(env, node.body)
            if f is not True:
                self.expr(env, node.orelse)
            return
        if isinstance(node, ast.Lambda):
            self.arguments(env, node.args)
            tab = env.child_table("lambda", node.lineno)
            if env.calltime:
                sub = _Env(tab, "function", True, env.func, env)
            else:
                sub = _Env(tab, "function", True, self.new_func("<lambda>@%d" % node.lineno, node.lineno), env)
            sub.fnode = node
            self.expr(sub, node.body)
            return
        if isinstance(node, (ast.ListComp, ast.SetComp, ast.GeneratorExp, ast.DictComp)):
            name = {ast.ListComp: "listcomp", ast.SetComp: "setcomp", ast.GeneratorExp: "genexpr",
                    ast.DictComp: "dictcomp"}[type(node)]
            gens = node.generators
            self.expr(env, gens[0].iter)            # evaluated in the enclosing scope
            tab = env.child_table(name, node.lineno, optional=True)
            sub = _Env(tab or env.table, "comp", env.calltime, env.func, env)
            if tab is None:
                sub.children = env.children     # nested scopes are children of the enclosing table
            sub.guard_name, sub.guard_attr, sub.guard_key = env.guard_name, env.guard_attr, env.guard_key
            for gen in gens:
                for n in ast.walk(gen.target):
                    if isinstance(n, ast.Name):
                        sub.bound.add(n.id)
            for k, gen in enumerate(gens):
                if k:
                    self.expr(sub, gen.iter)
                self.expr(sub, gen.target)
                self.expr(sub, gen.ifs)
            if isinstance(node, ast.DictComp):
                self.expr(sub, node.key)
                self.expr(sub, node.value)
            else:
                self.expr(sub, node.elt)
            return
        if isinstance(node, ast.Call):
            self.reflective_call(env, node)
        elif isinstance(node, ast.Subscript):
            self.reflective_item(env, node)
        for child in ast.iter_child_nodes(node):
            if not isinstance(child, (ast.expr_context, ast.operator, ast.unaryop, ast.boolop, ast.cmpop)):
                self.expr(env, child)
        if (isinstance(node, ast.Call) and not env.calltime and isinstance(node.func, ast.Name)
                and node.func.id in self.modfuncs and self.modfuncs[node.func.id]["imports"]):
            # a function of this module called while the module is imported: its import statements run now
            st = self.add(stmt("callf", node.lineno))
            st["callee"] = self.modfuncs[node.func.id]

    def arguments(self, env, args):
        """Defaults and annotations are evaluated in the enclosing scope when the def statement runs."""
        self.expr(env, args.defaults)
        self.expr(env, [d for d in args.kw_defaults if d is not None])
        for a in list(args.posonlyargs) + list(args.args) + list(args.kwonlyargs) + [args.vararg, args.kwarg]:
            if a is not None and a.annotation is not None:
                self.expr(env, a.annotation)

    # ------------------------------------------------------------------ binding targets
    def bind_target(self, env, t, line):
        if isinstance(t, ast.Name):
            self.bind_name(env, t.id, line)
        elif isinstance(t, (ast.Tuple, ast.List)):
            for e in t.elts:
                self.bind_target(env, e, line)
        elif isinstance(t, ast.Starred):
            self.bind_target(env, t.value, line)
        else:
            self.expr(env, t)       # attribute / subscript target: its object is loaded

    def bind_name(self, env, name, line, val=OBJ):
        if env.calltime:
            env.localmods.pop(name, None)
            env.localfrom.pop(name, None)
        elif env.kind == "module":
            self.add(stmt("def", line, bind=name, val=val))
        # class level bindings are class attributes, not module globals

    # ------------------------------------------------------------------ imports
    def do_import(self, env, node):
        for al in node.names:
            target = al.name
            bind = al.asname or target.split(".")[0]
            if _is_internal(target):
                val = target if al.asname else target.split(".")[0]
                st = stmt("import", node.lineno, mod=target, pre=_prefixes(target),
                          bind=bind if self.binds_global(env) else "", val=val)
                self.emit(env, st)
                if env.calltime:
                    env.localmods[bind] = val
            else:
                if env.calltime:
                    env.localmods.pop(bind, None)
                    continue        # availability of optional external modules is not a name-resolution matter
                if not ext_available(target):
                    raise _ImportFails(target, node.lineno)
                self.bind_name(env, bind, node.lineno, EXT)

    def binds_global(self, env):
        return (not env.calltime) and env.kind == "module"

    def do_import_from(self, env, node):
        src = self.resolve_from(node)
        for al in node.names:
            bind = al.asname or al.name
            if _is_internal(src):
                if al.name == "*":
                    st = stmt("star", node.lineno, mod=src, pre=_prefixes(src))
                else:
                    sub = src + "." + al.name
                    st = stmt("from", node.lineno, mod=src, pre=_prefixes(src), name=al.name,
                              sub=sub if sub in self.all_modules else "",
                              bind=bind if self.binds_global(env) else "")
                self.emit(env, st)
                if env.calltime:
                    env.localmods.pop(bind, None)
                    env.localfrom.pop(bind, None)
                    if al.name != "*":
                        env.localfrom[bind] = (src, al.name)
            else:
                if env.calltime:
                    env.localmods.pop(bind, None)
                    continue
                if al.name == "*":
                    raise ExtractError("%s:%d star import of an external module" % (self.path, node.lineno))
                if not ext_available(src, al.name):
                    raise _ImportFails("%s.%s" % (src, al.name), node.lineno,
                                       "ImportError" if ext_available(src) else "ModuleNotFoundError")
                self.bind_name(env, bind, node.lineno, OBJ)

    # ------------------------------------------------------------------ statements
    def block(self, env, stmts):
        for s in stmts:
            self.statement(env, s)
            if isinstance(s, (ast.Return, ast.Raise, ast.Continue, ast.Break)):
                break       # the rest of the block is unreachable

    def statement(self, env, node):
        if isinstance(node, (ast.FunctionDef, ast.AsyncFunctionDef)):
            self.expr(env, node.decorator_list)
            self.arguments(env, node.args)
            if node.returns is not None:
                self.expr(env, node.returns)
            tab = env.child_table(node.name, node.lineno)
            if env.calltime:
                frec = env.func
            else:
                frec = self.new_func(self.qualname(env, node.name), node.lineno)
            frec["end"] = max(frec["end"], getattr(node, "end_lineno", node.lineno) or node.lineno)
            sub = _Env(tab, "function", True, frec, env)
            sub.fnode = node
            for s in tab.get_symbols():
                if s.is_declared_global() and s.is_assigned():
                    self.dyndefs.add(s.get_name())
            # binding events of the local names of this scope (LocalsResolve)
            flow = localflow.Flow(node, tab, fold, lambda h: _catches(h, _NAMEERR + ("UnboundLocalError",))).build()
            if flow.names_of_interest():
                frec["flows"].append(flow.restricted())
            self.block(sub, node.body)
            self.bind_name(env, node.name, node.lineno)
            if not env.calltime and env.kind == "module":
                self.modfuncs[node.name] = frec
                if node.name == "__getattr__":
                    self.dynattr = True
            return
        if isinstance(node, ast.ClassDef):
            self.expr(env, node.decorator_list)
            self.expr(env, node.bases)
            self.expr(env, [k.value for k in node.keywords])
            tab = env.child_table(node.name, node.lineno)
            sub = _Env(tab, "class", env.calltime, env.func, env)
            sub.qual = self.qualname(env, node.name)
            self.block(sub, node.body)
            self.bind_name(env, node.name, node.lineno)
            return
        if isinstance(node, ast.Import):
            self.do_import(env, node)
            return
        if isinstance(node, ast.ImportFrom):
            self.do_import_from(env, node)
            return
        if isinstance(node, ast.If):
            self.expr(env, node.test)
            f = fold(node.test)
            if f is None and not env.calltime:
                # import time, undecidable test: the model takes either branch
                br = self.add(stmt("branch", node.lineno))
                self.block(env, node.body)
                jp = self.add(stmt("jump", node.lineno))
                br["to"] = len(self.body) + 1
                self.block(env, node.orelse)
                jp["to"] = len(self.body) + 1
                if len(self.body) >= 2 and self.body[-2] is br and self.body[-1] is jp:
                    # nothing happens in either branch
                    del self.body[-2:]
                return
            if f is not False:
                self.block(env, node.body)
            if f is not True:
                self.block(env, node.orelse)
            return
        if isinstance(node, ast.While):
            self.expr(env, node.test)
            if fold(node.test) is not False:
                self.block(env, node.body)
            self.block(env, node.orelse)
            return
        if isinstance(node, (ast.For, ast.AsyncFor)):
            self.expr(env, node.iter)
            self.bind_target(env, node.target, node.lineno)
            self.block(env, node.body)
            self.block(env, node.orelse)
            return
        if isinstance(node, (ast.With, ast.AsyncWith)):
            for item in node.items:
                self.expr(env, item.context_expr)
                if item.optional_vars is not None:
                    self.bind_target(env, item.optional_vars, node.lineno)
            self.block(env, node.body)
            return
        if isinstance(node, ast.Try) or type(node).__name__ == "TryStar":
            self.do_try(env, node)
            return
        if isinstance(node, ast.Assign):
            if (not env.calltime and env.kind == "module" and len(node.targets) == 1
                    and isinstance(node.targets[0], ast.Name) and node.targets[0].id == "__all__"):
                self.all = self.literal_all(node.value, node.lineno)
            self.expr(env, node.value)
            for t in node.targets:
                self.bind_target(env, t, node.lineno)
            return
        if isinstance(node, ast.AugAssign):
            if (not env.calltime and env.kind == "module" and isinstance(node.target, ast.Name)
                    and node.target.id == "__all__" and isinstance(node.op, ast.Add)):
                if self.all is None:
                    raise ExtractError("%s:%d __all__ += before assignment" % (self.path, node.lineno))
                self.all = self.all + self.literal_all(node.value, node.lineno)
            self.expr(env, node.value)
            if isinstance(node.target, ast.Name):
                self.ref_name(env, node.target.id, node.lineno)
            self.bind_target(env, node.target, node.lineno)
            return
        if isinstance(node, ast.AnnAssign):
            self.expr(env, node.annotation)
            if node.value is not None:
                self.expr(env, node.value)
                self.bind_target(env, node.target, node.lineno)
            return
        if isinstance(node, ast.Delete):
            for t in node.targets:
                if isinstance(t, ast.Name):
                    if not env.calltime and env.kind == "module":
                        self.add(stmt("del", node.lineno, bind=t.id))
                else:
                    self.expr(env, t)
            return
        if isinstance(node, (ast.Global, ast.Nonlocal, ast.Pass, ast.Break, ast.Continue)):
            return
        if type(node).__name__ == "Match":
            self.expr(env, node.subject)
            for case in node.cases:
                if case.guard is not None:
                    self.expr(env, case.guard)
                for n in ast.walk(case.pattern):
                    if type(n).__name__ == "MatchValue":
                        self.expr(env, n.value)
                    elif type(n).__name__ == "MatchClass":
                        self.expr(env, n.cls)
                self.block(env, case.body)
            return
        # Expr, Return, Raise, Assert, ...: only expressions inside
        for child in ast.iter_child_nodes(node):
            self.expr(env, child)

    def do_try_import_time(self, env, node):
        """try statement in code that runs while the module is imported.  Layout in the module body:
        body, jump ELSE, handler 1, jump END, handler 2, jump END, ELSE: orelse, END: finalbody.  A statement of
        the body that raises continues at the first handler that catches the class of its exception."""
        classes = {"I": _IMPERR, "N": _NAMEERR, "A": _ATTRERR, "K": _KEYERR}
        ctx = dict((c, _Label() if any(_catches(h, names) for h in node.handlers) else None)
                   for c, names in classes.items())
        self.hstack.append(ctx)
        failed = None
        try:
            self.block(env, node.body)
        except _ImportFails as exc:
            failed = exc        # an external module that is not installed: decided here, the rest of the body is dead
        finally:
            self.hstack.pop()

        def handler_code(h):
            start = len(self.body) + 1
            for c, names in classes.items():
                if ctx[c] is not None and ctx[c].pc is None and _catches(h, names):
                    ctx[c].pc = start
            if h.name:
                self.bind_name(env, h.name, h.lineno)
            self.block(env, h.body)
            if h.name and env.kind == "module":
                self.add(stmt("del", h.lineno, bind=h.name))

        if failed is not None:
            handler = next((h for h in node.handlers if _catches(h, _IMPERR)), None)
            if handler is None:
                self.block(env, node.finalbody)
                raise failed
            handler_code(handler)
        else:
            jelse = self.add(stmt("jump", node.lineno))
            jends = []
            for h in node.handlers:
                handler_code(h)
                jends.append(self.add(stmt("jump", h.lineno)))
            jelse["to"] = len(self.body) + 1
            self.block(env, node.orelse)
            for j in jends:
                j["to"] = len(self.body) + 1
        self.block(env, node.finalbody)

    def do_try(self, env, node):
        if not env.calltime:
            return self.do_try_import_time(env, node)
        g_name, g_attr, g_key = env.guard_name, env.guard_attr, env.guard_key
        if any(_catches(h, _NAMEERR) for h in node.handlers):
            env.guard_name = True
        if any(_catches(h, _ATTRERR) for h in node.handlers):
            env.guard_attr = True
        if any(_catches(h, _KEYERR) for h in node.handlers):
            env.guard_key = True
        failed = None
        try:
            self.block(env, node.body)
        except _ImportFails as exc:
            failed = exc
        finally:
            env.guard_name, env.guard_attr, env.guard_key = g_name, g_attr, g_key
        if failed is not None:
            handler = None
            for h in node.handlers:
                if _catches(h, _IMPERR):
                    handler = h
                    break
            if handler is None:
                self.block(env, node.finalbody)
                raise failed
            if handler.name:
                self.bind_name(env, handler.name, handler.lineno)
                if not env.calltime and env.kind == "module":
                    self.body.append(stmt("del", handler.lineno, bind=handler.name))
            self.block(env, handler.body)
        else:
            if env.calltime:
                # at call time any handler may run
                for h in node.handlers:
                    if h.type is not None:
                        self.expr(env, h.type)
                    self.block(env, h.body)
            else:
                # import time: handler types are only evaluated when an exception occurs; a body
                # made of imports of this tree is modelled as running to its end
                pass
            self.block(env, node.orelse)
        self.block(env, node.finalbody)

    def literal_all(self, node, line):
        try:
            val = ast.literal_eval(node)
        except Exception:   # noqa
            raise ExtractError("%s:%d __all__ is not a literal" % (self.path, line))
        if not isinstance(val, (list, tuple)) or not all(isinstance(x, str) for x in val):
            raise ExtractError("%s:%d __all__ is not a list of strings" % (self.path, line))
        return list(val)

    def qualname(self, env, name):
        e = env
        while e is not None:
            if e.kind == "class":
                return "%s.%s" % (e.qual, name)
            e = e.parent
        return name

    # ------------------------------------------------------------------ driver
    def run(self):
        env = _Env(self.top, "module", False)
        try:
            self.block(env, self.tree.body)
        except _ImportFails as exc:
            self.add(stmt("fail", exc.line, name=exc.what, val=exc.kind))
        for st in self.body:
            for k in ("hI", "hN", "hA"):
                if isinstance(st[k], _Label):
                    st[k] = st[k].pc or 0
        for f in self.funcs:
            f["loads"] = [{"name": n, "line": ln} for n, ln in sorted(f["loads"].items())]
            plain = f.pop("chains_plain", set())
            f["chains"] = [{"root": r, "rv": rv, "links": list(ls), "line": ln,
                            "guard": "" if (r, rv, ls) in plain else "A"}
                           for (r, rv, ls), ln in sorted(f["chains"].items())]
        for f in self.funcs:
            nodes, succ, seeds = [], [], []
            for fn, fs, fseeds in f.pop("flows"):
                off = len(nodes)
                nodes.extend({"op": op, "name": nm, "line": ln} for op, nm, ln in fn)
                succ.extend([y + off + 1 for y in ys] for ys in fs)                 # 1-based for TLA+
                seeds.extend({"t": t + off + 1, "h": h + off + 1, "last": la + off + 1, "name": nm}
                             for t, h, la, nm in fseeds)
            f["fnodes"], f["fsucc"], f["fseeds"] = nodes, succ, seeds
        # unique function ids
        seen = {}
        for f in self.funcs:
            k = seen.get(f["id"], 0)
            seen[f["id"]] = k + 1
            if k:
                f["id"] = "%s#%d" % (f["id"], k + 1)
        for st in self.body:
            if st["op"] == "callf":
                st["name"] = st.pop("callee")["id"]
        return self


def discover(repo):
    """module name -> (path, is package) for the package lena under <repo>."""
    root = os.path.join(repo, PKG)
    mods = {}
    for dp, dns, fns in os.walk(root):
        dns[:] = sorted(d for d in dns if d != "__pycache__")
        if "__init__.py" not in fns:
            dns[:] = []
            continue
        rel = os.path.relpath(dp, repo).split(os.sep)
        pkg = ".".join(rel)
        mods[pkg] = (os.path.join(dp, "__init__.py"), True)
        for fn in sorted(fns):
            if fn.endswith(".py") and fn != "__init__.py":
                mods[pkg + "." + fn[:-3]] = (os.path.join(dp, fn), False)
    return mods


def extract(repo):
    mods = discover(repo)
    if PKG not in mods:
        raise ExtractError("no package %s under %s" % (PKG, repo))
    data = {"modules": sorted(mods), "ispkg": {}, "parent": {}, "leaf": {}, "body": {}, "all": {},
            "funcs": [], "dyndefs": {}, "path": {}}
    for m in sorted(mods):
        path, ispkg = mods[m]
        ex = ModuleExtractor(m, path, ispkg, mods).run()
        data["ispkg"][m] = ispkg
        data["parent"][m] = m.rpartition(".")[0]
        data["leaf"][m] = m.rpartition(".")[2]
        data["body"][m] = ex.body
        data["path"][m] = os.path.relpath(path, repo)
        if ex.all is not None:
            data["all"][m] = ex.all
        data["funcs"].extend(ex.funcs)
        data["dyndefs"][m] = sorted(ex.dyndefs)
        data.setdefault("brefl", {}).update(ex.brefl)
        if ex.dynattr:
            data.setdefault("dynattr", []).append(m)
        for d in sorted(ex.dynstore):
            if d not in data.setdefault("dynstore", []):
                data["dynstore"].append(d)
    data["builtins"] = sorted(dir(builtins))
    # names every module object has before its body runs (probed on a scratch module of this interpreter)
    data["implicit"], data["pkgimplicit"] = implicit_names()
    data["subpackages"] = sorted(m for m in mods if mods[m][1] and m.count(".") == 1)
    return data


def implicit_names():
    import tempfile
    import shutil
    import subprocess
    d = tempfile.mkdtemp(prefix="implicit_")
    try:
        os.makedirs(os.path.join(d, "zz_pkg"))
        with open(os.path.join(d, "zz_pkg", "__init__.py"), "w") as f:
            f.write("NAMES = sorted(globals())\n")
        with open(os.path.join(d, "zz_pkg", "mod.py"), "w") as f:
            f.write("NAMES = sorted(globals())\n")
        out = subprocess.check_output(
            [sys.executable, "-c",
             "import json, zz_pkg, zz_pkg.mod; print(json.dumps([zz_pkg.mod.NAMES, zz_pkg.NAMES]))"],
            cwd=d, env=dict(os.environ, PYTHONPATH=d, PYTHONDONTWRITEBYTECODE="1"))
        import json
        mod, pkg = json.loads(out.decode())
        return mod, pkg
    finally:
        shutil.rmtree(d, ignore_errors=True)


# --------------------------------------------------------------------------- TLA+ output
def _s(x):
    if '"' in x or "\\" in x:
        raise ExtractError("cannot encode string %r" % (x,))
    return '"%s"' % x


def _set(xs):
    return "{" + ", ".join(_s(x) for x in xs) + "}"


def _seq(xs):
    return "<<" + ", ".join(_s(x) for x in xs) + ">>"


def _stmt_tla(st):
    return ("[op |-> %s, mod |-> %s, pre |-> %s, name |-> %s, sub |-> %s, bind |-> %s, val |-> %s, "
            "root |-> %s, rv |-> %s, links |-> %s, line |-> %d, hI |-> %d, hN |-> %d, hA |-> %d, to |-> %d]" % (
                _s(st["op"]), _s(st["mod"]), _seq(st["pre"]), _s(st["name"]), _s(st["sub"]), _s(st["bind"]),
                _s(st["val"]), _s(st["root"]), _s(st["rv"]), _seq(st["links"]), st["line"],
                st["hI"], st["hN"], st["hA"], st["to"]))


def _fun(pairs, empty="<<>>"):
    """TLA+ function with string domain from (key, tla-text) pairs."""
    pairs = list(pairs)
    if not pairs:
        return empty
    return " @@\n    ".join("(%s :> %s)" % (_s(k), v) for k, v in pairs)


def _body_of(spec_path):
    """Text of a spec module between its @@BODY marker and the closing ==== line."""
    with open(spec_path) as f:
        text = f.read()
    k = text.index("@@BODY")
    k = text.index("\n", k) + 1
    e = text.rindex("\n====")
    return text[k:e] + "\n"


def to_tla(data, name, entry_sets, trace=False, specdir=None):
    """The generated model: the data constants of spec/Imports.tla as definitions extracted from the tree,
    followed by the body of Imports.tla (and of Trace_Imports.tla).

    *entry_sets*: {operator name: list of entry lists}."""
    specdir = specdir or os.path.join(os.path.dirname(os.path.dirname(os.path.abspath(__file__))), "spec")
    mods = data["modules"]
    L = []
    L.append("---- MODULE %s ----" % name)
    L.append("\\* generated by lenaverif/extract_imports.py from the tree under test - do not edit")
    L.append("EXTENDS Naturals, Sequences, FiniteSets, TLC, Json" + (", IOUtils" if trace else ""))
    L.append("Modules == %s" % _set(mods))
    L.append("IsPkg == %s" % _fun((m, "TRUE" if data["ispkg"][m] else "FALSE") for m in mods))
    L.append("Parent == %s" % _fun((m, _s(data["parent"][m])) for m in mods))
    L.append("Leaf == %s" % _fun((m, _s(data["leaf"][m])) for m in mods))
    for k, m in enumerate(mods):
        L.append("D_Body_%d == <<%s>>" % (k, ",\n    ".join(_stmt_tla(s) for s in data["body"][m])))
    L.append("Body == %s" % _fun((m, "D_Body_%d" % k) for k, m in enumerate(mods)))
    L.append("All == %s" % _fun((m, _set(data["all"][m])) for m in sorted(data["all"])))
    L.append("DynDefs == %s" % _fun((m, _set(data["dyndefs"][m])) for m in mods))
    L.append("DynAttr == %s" % _set(data.get("dynattr", [])))
    L.append("DynStore == %s" % _set(sorted(data.get("dynstore", []))))
    funcs = data["funcs"]
    L.append("Funcs == %s" % _set(f["id"] for f in funcs))
    L.append("FMod == %s" % _fun((f["id"], _s(f["mod"])) for f in funcs))
    L.append("FImports == %s" % _fun(
        (f["id"], "<<%s>>" % ", ".join(_stmt_tla(s) for s in f["imports"])) for f in funcs))
    L.append("FLoads == %s" % _fun(
        (f["id"], "{%s}" % ", ".join("[name |-> %s, line |-> %d]" % (_s(l["name"]), l["line"]) for l in f["loads"]))
        for f in funcs))
    L.append("FChains == %s" % _fun(
        (f["id"], "{%s}" % ", ".join("[root |-> %s, rv |-> %s, links |-> %s, line |-> %d, guard |-> %s]" % (
            _s(c["root"]), _s(c["rv"]), _seq(c["links"]), c["line"], _s(c.get("guard", ""))) for c in f["chains"]))
        for f in funcs))
    def refl_tla(d):
        return ("[root |-> %s, rv |-> %s, links |-> %s, how |-> %s, names |-> %s, open |-> %s, pat |-> %s, "
                "catches |-> %s, tested |-> %s, line |-> %d]" % (
                    _s(d["root"]), _s(d["rv"]), _seq(d["links"]), _s(d["how"]), _set(d["names"]),
                    "TRUE" if d["open"] else "FALSE", _s(d["pat"]), _set(d["catches"]),
                    "TRUE" if d["tested"] else "FALSE", d["line"]))
    L.append("FRefl == %s" % _fun(
        (f["id"], "{%s}" % ", ".join(refl_tla(d) for d in f.get("refl", []))) for f in funcs))
    L.append("BRefl == %s" % _fun((k, refl_tla(d)) for k, d in sorted(data.get("brefl", {}).items())))
    flowf = [f for f in funcs if f["fnodes"]]
    L.append("FlowFuncs == %s" % _set(f["id"] for f in flowf))
    L.append("FNodes == %s" % _fun(
        (f["id"], "<<%s>>" % ", ".join("[op |-> %s, name |-> %s, line |-> %d]" % (_s(n["op"]), _s(n["name"]), n["line"])
                                       for n in f["fnodes"])) for f in flowf))
    L.append("FSucc == %s" % _fun(
        (f["id"], "<<%s>>" % ", ".join("{%s}" % ", ".join(str(y) for y in ys) for ys in f["fsucc"])) for f in flowf))
    L.append("FSeeds == %s" % _fun(
        (f["id"], "{%s}" % ", ".join("[t |-> %d, h |-> %d, last |-> %d, name |-> %s]" % (x["t"], x["h"], x["last"], _s(x["name"]))
                                     for x in f["fseeds"])) for f in flowf))
    L.append("Builtins == %s" % _set(data["builtins"]))
    L.append("Implicit == %s" % _set(data["implicit"]))
    L.append("PkgImplicit == %s" % _set(data["pkgimplicit"]))
    for op, lists in sorted(entry_sets.items()):
        L.append("%s == {%s}" % (op, ", ".join(_seq(e) for e in lists)))
    L.append("\\* ---- spec/Imports.tla from its @@BODY marker on ----")
    L.append(_body_of(os.path.join(specdir, "Imports.tla")))
    if trace:
        L.append("\\* ---- spec/Trace_Imports.tla from its @@BODY marker on ----")
        L.append(_body_of(os.path.join(specdir, "Trace_Imports.tla")))
    L.append("====")
    return "\n".join(L) + "\n"


if __name__ == "__main__":
    import json
    d = extract(sys.argv[1] if len(sys.argv) > 1 else "/repo")
    if len(sys.argv) > 2:
        print(to_tla(d, "Imports_data", {"D_Entries": [[m] for m in d["subpackages"]]}))
    else:
        print(json.dumps({"modules": len(d["modules"]), "funcs": len(d["funcs"]),
                          "stmts": sum(len(b) for b in d["body"].values()),
                          "loads": sum(len(f["loads"]) for f in d["funcs"]),
                          "chains": sum(len(f["chains"]) for f in d["funcs"]),
                          "flow_funcs": sum(1 for f in d["funcs"] if f["fnodes"]),
                          "flow_nodes": sum(len(f["fnodes"]) for f in d["funcs"]),
                          "seeds": sum(len(f["fseeds"]) for f in d["funcs"]),
                          "refl": sum(len(f["refl"]) for f in d["funcs"]), "dynstore": d.get("dynstore", [])}))
