"""pytest plugin (lives in /verif, nothing in the repository is changed): records the calls the
repository's own test-suite makes to the context functions, so that the trace specifications
judge every one of them (REPO binding of DESIGN.md 2.1).

Usage: LENAVERIF_RECORD=<out.json> LENAVERIF_RECORD_SET=c07|c08 pytest -p lenaverif.ctxrecorder ...

The public names of the package lena.context are replaced by logging wrappers (users inside lena
call lena.context.<name>(...), tests import the names after this plugin is loaded).  Only calls
whose arguments are dictionaries with string keys are recorded; a call that raises is passed
through unrecorded for C07 (the statement says nothing about exceptions there).
"""
import copy
import functools
import json
import os

from . import ctxlib as cl

_RECORDS = []
_LIMIT = 20000
_BUSY = [False]


def _ok_dict(d):
    return isinstance(d, dict) and cl.all_str_keys(d)


def _wrap_c07(ctxmod):
    orig = dict((n, getattr(ctxmod, n)) for n in
                ("intersection", "difference", "update_recursively", "update_nested"))

    def guard(name, make):
        f = orig[name]

        @functools.wraps(f)
        def wrapper(*args, **kwargs):
            if _BUSY[0] or len(_RECORDS) >= _LIMIT:
                return f(*args, **kwargs)
            _BUSY[0] = True
            try:
                plan = make(args, kwargs)
            except Exception:    # noqa
                plan = None
            finally:
                _BUSY[0] = False
            if plan is None:
                return f(*args, **kwargs)
            op, dicts, lv, key = plan
            enc = cl.Encoder()
            _BUSY[0] = True
            try:
                before = [enc.enc(copy.deepcopy(d)) for d in dicts]
            except Exception:    # noqa
                before = None
            finally:
                _BUSY[0] = False
            if before is None:
                return f(*args, **kwargs)
            res = f(*args, **kwargs)      # exceptions propagate unrecorded
            _BUSY[0] = True
            try:
                _RECORDS.append({"op": op, "lv": lv, "key": key, "args": before,
                                 "res": enc.enc(res) if _ok_dict(res) else enc.enc({}),
                                 "post": [enc.enc(d) for d in dicts]})
            except Exception:    # noqa
                pass
            finally:
                _BUSY[0] = False
            return res
        return wrapper

    def mk_inter(args, kwargs):
        lv = kwargs.get("level", -1)
        if set(kwargs) - {"level"} or not isinstance(lv, int) or isinstance(lv, bool):
            return None
        if not all(_ok_dict(d) for d in args):
            return None
        return "inter", list(args), lv, "-"

    def mk_diff(args, kwargs):
        a = list(args)
        lv = kwargs.get("level", a[2] if len(a) > 2 else -1)
        if len(a) < 2 or not isinstance(lv, int) or isinstance(lv, bool):
            return None
        if not (_ok_dict(a[0]) and _ok_dict(a[1])):
            return None
        return "diff", a[:2], lv, "-"

    def mk_updrec(args, kwargs):
        if kwargs or not args or not _ok_dict(args[0]):
            return None
        if len(args) in (2, 3) and isinstance(args[1], str) and args[1] and all(args[1].split(".")):
            # the string form: what str_to_dict(other, value) stands for is built here independently
            parts = args[1].split(".")
            if len(args) == 3:
                cur = args[2]
            elif len(parts) >= 2:
                cur, parts = parts[-1], parts[:-1]
            else:
                return None
            if isinstance(cur, dict) and not _ok_dict(cur):
                return None
            for k in reversed(parts):
                cur = {k: cur}
            return "updrec", [args[0], cur], -1, "-"
        if len(args) != 2 or not _ok_dict(args[1]):
            return None
        return "updrec", list(args), -1, "-"

    def mk_nested(args, kwargs):
        if kwargs or len(args) != 3 or not isinstance(args[0], str):
            return None
        if not (_ok_dict(args[1]) and _ok_dict(args[2])):
            return None
        if args[1] is args[2]:
            return None
        return "nested", [args[1], args[2]], -1, args[0]

    ctxmod.intersection = guard("intersection", mk_inter)
    ctxmod.difference = guard("difference", mk_diff)
    ctxmod.update_recursively = guard("update_recursively", mk_updrec)
    ctxmod.update_nested = guard("update_nested", mk_nested)


def pytest_configure(config):
    which = os.environ.get("LENAVERIF_RECORD_SET", "c07")
    import lena.context as ctxmod
    import lena    # noqa  (everything loaded before the names are replaced)
    if which == "c07":
        _wrap_c07(ctxmod)
    else:
        from . import ctxrecorder08
        ctxrecorder08.wrap(ctxmod, _RECORDS, _LIMIT)


def pytest_unconfigure(config):
    out = os.environ.get("LENAVERIF_RECORD")
    if out:
        with open(out, "w") as f:
            json.dump(_RECORDS, f)
