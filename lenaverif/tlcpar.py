"""Several independent TLC runs of one check side by side (used by c03.py and c17.py).

core.Ctx.mc / Ctx.export run one TLC after the other; the model-checking runs and the export runs of a
check do not depend on each other, so they are started together here (core.run_tlc is a function of its
arguments) and accounted for - in the order given - exactly as Ctx.mc / Ctx.export would do.
"""
import os
from concurrent.futures import ThreadPoolExecutor

from . import core


def mc(module, cfg, must_cover=(), workers=None, coverage=True):
    return {"what": "mc", "module": module, "cfg": cfg, "must_cover": tuple(must_cover), "workers": workers,
            "coverage": coverage}


def export(module, cfg, min_records=1):
    return {"what": "export", "module": module, "cfg": cfg, "min_records": min_records, "workers": 1,
            "coverage": False}


def run_jobs(ctx, jobs, timeout=3000):
    """Run the jobs concurrently; returns, per job, the TLCResult (mc) or the list of exported records."""
    nmc = sum(1 for j in jobs if j["what"] == "mc") or 1
    share = max(2, ctx.nworkers // min(nmc, 2))

    def one(job):
        return core.run_tlc(job["module"], job["cfg"], ctx.workdir, workers=job["workers"] or share,
                            coverage=job["coverage"], timeout=timeout)
    # several JVMs at once: a smaller heap bound each (core.run_tlc reads VERIF_XMX; default 8g)
    xmx = os.environ.get("VERIF_XMX")
    if xmx is None:
        os.environ["VERIF_XMX"] = "4g"
    try:
        with ThreadPoolExecutor(max_workers=len(jobs)) as pool:
            results = list(pool.map(one, jobs))
    finally:
        if xmx is None:
            del os.environ["VERIF_XMX"]
    out = []
    for job, res in zip(jobs, results):
        ctx._account(job["what"], job["module"], job["cfg"], res)
        if res.exit != 0:
            raise core.MachineryError("TLC %s %s/%s failed (exit %s, violated %s):\n%s" % (
                job["what"], job["module"], job["cfg"], res.exit, res.violated, res.out[-3000:]))
        if job["what"] == "mc":
            for a in job["must_cover"]:
                if res.coverage.get(a, 0) == 0:
                    raise core.MachineryError("vacuous model: action %s of %s/%s never taken" % (
                        a, job["module"], job["cfg"]))
            out.append(res)
        else:
            if len(res.records) < job["min_records"]:
                raise core.MachineryError("TLC export %s/%s produced %d records" % (
                    job["module"], job["cfg"], len(res.records)))
            out.append(res.records)
    return out
