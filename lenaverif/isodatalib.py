"""Binding of spec/IsolationData.tla (Split / Zip branch isolation for flow values whose DATA is a structure
with an inside of its own) to the real lena objects.

Pure values of the spec are JSON: {"a": int, "s": [{"v": int, "m": dict}, ...], "c": context}; an empty
dictionary arrives as [].  Kinds of data: see spec/IsolationDataSem.tla.
"""
import random

from . import aliaslib as al

NONE = al.NONE
NS = 2
NUMERIC = ("histnum", "graph")
TUPLES = ("histctx", "hist2d")
LISTS = ("histlist", "nested", "ctxobj")
KINDS = NUMERIC + TUPLES + LISTS


def _bm(kind):
    return {} if kind in NUMERIC else {"u": 1}


def flow_value(j, kind):
    """IsolationDataSem!X(j, kind): every value has its own data structure (nothing shared) and context"""
    import lena.structures
    import lena.context
    vals = [j, j + 10]
    ctx = {"a": 1} if j % 2 == 1 else {}
    if kind == "histnum":
        data = lena.structures.histogram([0, 1, 2], bins=list(vals))
    elif kind == "histctx":
        data = lena.structures.histogram([0, 1, 2], bins=[(v, _bm(kind)) for v in vals])
    elif kind == "histlist":
        data = lena.structures.histogram([0, 1, 2], bins=[[v, _bm(kind)] for v in vals])
    elif kind == "hist2d":
        data = lena.structures.histogram([[0, 1, 2], [0, 1]], bins=[[(v, _bm(kind))] for v in vals])
    elif kind == "graph":
        data = lena.structures.graph([[1, 2], list(vals)], scale=0)
    elif kind == "nested":
        data = [0, [[v, _bm(kind)] for v in vals]]
    elif kind == "ctxobj":
        data = lena.context.Context({"a": 0, "s": [lena.context.Context({"v": v, "m": _bm(kind)}) for v in vals]})
    else:
        raise ValueError(kind)
    return (data, ctx)


def _cells(data, kind):
    """(list object holding cell i, index in it) for every cell"""
    if kind in ("histnum", "histctx", "histlist"):
        return [(data.bins, i) for i in range(NS)]
    if kind == "hist2d":
        return [(data.bins[i], 0) for i in range(NS)]
    if kind == "graph":
        return [(data.coords[1], i) for i in range(NS)]
    if kind == "nested":
        return [(data[1], i) for i in range(NS)]
    if kind == "ctxobj":
        return [(data["s"], i) for i in range(NS)]
    raise ValueError(kind)


def get_attr(data, kind):
    if kind.startswith("hist"):
        return data.n_out_of_range
    if kind == "graph":
        # an attribute of the harness' own (no private name of lena is read: a renaming must not alarm);
        # copy.deepcopy copies the instance dictionary, so it is private to a branch exactly like lena's own
        return getattr(data, "verif_mark", 0)
    if kind == "nested":
        return data[0]
    return data["a"]


def set_attr(data, kind, x):
    if kind.startswith("hist"):
        data.n_out_of_range = x
    elif kind == "graph":
        data.verif_mark = x
    elif kind == "nested":
        data[0] = x
    else:
        data["a"] = x


def pure(value, kind):
    """real value -> pure value of the spec (a snapshot made by hand: copy.deepcopy is what is under test)"""
    data, ctx = value
    cells = []
    for lst, i in _cells(data, kind):
        c = lst[i]
        if kind in NUMERIC:
            cells.append({"v": c, "m": {}})
        elif kind == "ctxobj":
            cells.append({"v": c["v"], "m": al.plain_ctx(c["m"])})
        else:
            cells.append({"v": c[0], "m": al.plain_ctx(c[1])})
    return {"a": get_attr(data, kind), "s": cells, "c": al.plain_ctx(ctx)}


def norm_pure(x):
    def d(m):
        return {} if m == [] else m
    return {"a": x["a"], "s": [{"v": c["v"], "m": d(c["m"])} for c in x["s"]], "c": d(x["c"])}


class DataMut(al._Structural):
    """user element changing the inside of the data (or the context) of the value it is given, in place"""

    def __init__(self, mu, kind):
        self.mu, self.kind = dict(mu), kind

    def __call__(self, value):
        mu, kind = self.mu, self.kind
        data, ctx = value
        t = mu["t"]
        if t == "ctx":
            ctx[mu["key"]] = mu["x"]
            return value
        if t == "attr":
            set_attr(data, kind, mu["x"])
            return value
        lst, i = _cells(data, kind)[mu["i"] - 1]
        if t == "slot":
            # a NEW content (the list of cells changes, the old content does not)
            if kind in NUMERIC:
                lst[i] = mu["x"]
            elif kind in TUPLES:
                lst[i] = (mu["x"], {})
            elif kind == "ctxobj":
                import lena.context
                lst[i] = lena.context.Context({"v": mu["x"], "m": {}})
            else:
                lst[i] = [mu["x"], {}]
        elif t == "val":
            if kind == "ctxobj":
                lst[i]["v"] += mu["x"]
            else:
                lst[i][0] += mu["x"]
        elif t == "bctx":
            (lst[i]["m"] if kind == "ctxobj" else lst[i][1])[mu["key"]] = mu["x"]
        else:
            raise ValueError(mu)
        return value


def build_branch(b, br, kind, shared=None):
    import lena.core
    els = []
    for mu in br["muts"]:
        key = repr(sorted(mu.items()))
        if shared is not None:
            els.append(shared.setdefault(key, DataMut(mu, kind)))
        else:
            els.append(DataMut(mu, kind))
    end = br["end"]
    if end == "seq":
        return lena.core.Sequence(*(els + [al.Tag(b)]))
    if end == "store":
        return lena.core.FillComputeSeq(*(els + [al.Collector(None), al.Tag(b)]))
    if end == "fr":
        return al.FRBranch(els, b, None)
    raise ValueError(br)


def run_scenario(brs, n, bs, drv, rq, kind, share=False, nested=False):
    """Execute one scenario on the real Split / Zip.  Returns per-branch lists (1-based dict) of
    (snapshot when yielded, snapshot at the end) plus the source values (as the caller holds them afterwards)
    plus the yielded objects per branch."""
    import lena.core
    import lena.flow
    shared = {} if share else None
    branches = [build_branch(b + 1, br, kind, shared) for b, br in enumerate(brs)]
    values = [flow_value(j + 1, kind) for j in range(n)]
    outs = []

    def take(item):
        if not (isinstance(item, tuple) and len(item) == 3 and item[0] == "B"):
            raise ValueError("untagged output %r" % (item,))
        outs.append((item[1], pure(item[2], kind), item[2]))

    def take_zipped(gen):
        for tup in gen:
            if not isinstance(tup, tuple) or len(tup) != len(branches):
                raise ValueError("unexpected Zip output %r" % (tup,))
            for item in tup:
                take(item)

    if drv == "run":
        s = lena.core.Split(branches, bufsize=None if bs == NONE else bs)
        for item in s.run(iter(values)):
            take(item)
    elif drv == "fill" and nested:
        inner = lena.core.Split(branches)
        s = lena.core.Split([inner], bufsize=2)
        for item in s.run(iter(values)):
            take(item)
    elif drv == "fill":
        s = lena.core.Split(branches)
        for v in values:
            s.fill(v)
        for item in s.compute():
            take(item)
    elif drv == "fillreq":
        s = lena.core.Split(branches)
        for v in values:
            s.fill(v)
            if rq:
                for item in s.request():
                    take(item)
        for item in s.request():
            take(item)
    elif drv == "zip":
        z = lena.flow.Zip(branches)
        if brs[0]["end"] == "fr":
            for v in values:
                z.fill(v)
                if rq:
                    take_zipped(z.request())
            take_zipped(z.request())
        else:
            for v in values:
                z.fill(v)
            take_zipped(z.compute())
    else:
        raise ValueError(drv)
    per, objs = {}, {}
    for b, snap, obj in outs:
        per.setdefault(b, []).append((snap, pure(obj, kind)))
        objs.setdefault(b, []).append(obj)
    return per, values, objs


def shared_objects(objs, kind):
    """mutable objects (by id) inside the data of values yielded by DIFFERENT branches: must be none"""
    seen = {}
    for b, vals in objs.items():
        for v in vals:
            data, ctx = v
            ids = [id(data), id(ctx)]
            for lst, i in _cells(data, kind):
                ids.append(id(lst))
                c = lst[i]
                if kind not in NUMERIC:
                    ids.append(id(c))
                    ids.append(id(c["m"] if kind == "ctxobj" else c[1]))
            for k in ids:
                if seen.setdefault(k, b) != b:
                    return (seen[k], b)
    return None


# ---- seeded random scenarios beyond the exhaustive bounds (validated by Trace_IsolationData.tla)
def rand_mut(rnd, kind):
    ts = ["attr", "slot", "ctx"]
    if kind not in NUMERIC:
        ts += ["bctx", "bctx"]
    if kind in LISTS:
        ts += ["val", "val"]
    t = rnd.choice(ts)
    i = rnd.randint(1, NS) if t in ("slot", "val", "bctx") else 0
    key = rnd.choice(["u", "w", "k"]) if t in ("bctx", "ctx") else ""
    return {"t": t, "i": i, "key": key, "x": rnd.randint(1, 9)}


def rand_scenario(rnd):
    kind = rnd.choice(KINDS)
    drv = rnd.choice(["run", "run", "fill", "fillreq", "zip"])
    nbr = rnd.randint(2, 5)
    if drv == "run":
        ends = [rnd.choice(["seq", "store", "fr"]) for _ in range(nbr)]
    elif drv == "fill":
        ends = ["store"] * nbr
    elif drv == "fillreq":
        ends = ["fr"] * nbr
    else:
        ends = [rnd.choice(["store", "fr"])] * nbr
    brs = [{"muts": [rand_mut(rnd, kind) for _ in range(rnd.randint(0, 3))], "end": e} for e in ends]
    rq = rnd.randint(0, 1) if (drv == "fillreq" or (drv == "zip" and ends[0] == "fr")) else 0
    return {"brs": brs, "N": rnd.randint(1, 5), "bs": rnd.choice([1, 2, 3, NONE]) if drv == "run" else 1,
            "drv": drv, "rq": rq, "kind": kind}


def brs_key(brs):
    return "|".join("%s(%s)" % (b["end"], ",".join(m["t"] for m in b["muts"])) for b in brs)
