"""Harness of X09 (spec/LazyBlocks.tla): real lena pipelines with a fill/request block stage on instrumented sources."""
import weakref

from . import flowlib as fl
from .util import exc_name

INF = 1000
STOPKINDS = ("close", "abandon", "throw")


class Boom(Exception):
    """thrown into the pipeline by the consumer"""


class Ctx(dict):
    """weakref-able context: one per input value"""


class Src(object):
    """Instrumented input: counts pulls; remembers how many of its values were alive at any pull."""

    def __init__(self, n):
        self.n = n
        self.pulled = 0
        self.refs = []
        self.peak = 0

    def alive(self):
        return sum(1 for r in self.refs if r() is not None)

    def __iter__(self):
        return self

    def __next__(self):
        self.peak = max(self.peak, self.alive())
        if self.n is not None and self.pulled >= self.n:
            raise StopIteration
        i = self.pulled
        self.pulled += 1
        c = Ctx()
        self.refs.append(weakref.ref(c))
        if len(self.refs) > 64:
            self.refs = [r for r in self.refs if r() is not None]
        return (i, c)
    next = __next__


def data(v):
    return v[0] if isinstance(v, tuple) else v


class Acc(object):
    """Content element: keeps the data parts of the values it received since its last reset; every request
    yields m results carrying the content at the moment they are yielded."""

    def __init__(self, m):
        self.m = m
        self.c = []

    def _res(self):
        for i in range(1, self.m + 1):
            yield {"i": i, "p": list(self.c)}

    def reset(self):
        self.c = []


class AccFC(Acc):
    def fill(self, v):
        self.c.append(data(v))

    def compute(self):
        return self._res()


class AccRun(Acc):
    def run(self, flow):
        for v in flow:
            self.c.append(data(v))
        for r in self._res():
            yield r


def _even(v):
    return data(v) % 2 == 0


def _inc(v):
    return (v[0] + 100, v[1])


def _ident(v):
    return v


def make_fr(cfg):
    import lena.core
    el = (AccRun if cfg["kind"] == "run" else AccFC)(cfg["m"])
    return lena.core.FillRequest(el, bufsize=cfg["n"], reset=cfg["reset"], buffer_input=cfg["bufIn"],
                                 buffer_output=not cfg["bufIn"], yield_on_remainder=cfg["yor"])


def elements(sc, inside=False):
    """The elements after the source.  inside: the streaming map stands inside the FillRequestSeq."""
    import lena.core
    import lena.flow
    pre = {"none": [], "even": [lena.flow.Filter(_even)], "inc": [_inc]}[sc["pre"]]
    fr = make_fr(sc["cfg"])
    if sc["mode"] == "run":
        stage = fr
    elif sc["mode"] == "seq":
        kw = dict(bufsize=sc["B2"], reset=False, buffer_input=True, yield_on_remainder=sc["oyor"])
        if inside:
            stage = lena.core.FillRequestSeq(*(pre + [fr, _ident]), **kw)
            pre = []
        else:
            stage = lena.core.FillRequestSeq(fr, **kw)
    else:
        stage = lena.core.Split([fr], bufsize=sc["B2"])
    post = [lena.flow.Slice(sc["k"])] if sc["k"] else []
    return pre + [stage] + post


BUILDS = ("sequence", "source", "nested", "inside")


def builds_for(sc):
    return BUILDS if (sc["mode"] == "seq" and sc["pre"] == "inc") else BUILDS[:3]


def start(sc, src, build):
    import lena.core
    els = elements(sc, inside=(build == "inside"))
    if build == "source":
        with fl.quiet_warnings():
            return lena.core.Source(lambda: src, *els)()
    if build == "nested" and len(els) >= 2:
        return lena.core.Sequence(lena.core.Sequence(els[0]), lena.core.Sequence(*els[1:])).run(src)
    return lena.core.Sequence(*els).run(src)


def observe(sc, n, kmax, build="sequence", stop=None):
    """Run the real pipeline on an instrumented source; stop = (k, kind): the consumer stops after k results."""
    src = Src(None if n == INF else n)
    res = {"out": [], "pulls": []}
    close_at, stopkind = stop if stop else (None, "close")
    with fl.quiet():
        try:
            with fl.time_limit(5):      # an implementation that reads its input here never returns on an infinite source
                gen = start(sc, src, build)
                res["pulled_at_run"] = src.pulled
        except fl.Watchdog:
            res.update(timeout=True, pulled_at_run=src.pulled, end=src.pulled, alive=0)
            return res
        except Exception as exc:    # noqa
            res.update(raised="at-construction:" + exc_name(exc), pulled_at_run=src.pulled, end=src.pulled, alive=0)
            return res
        try:
            with fl.time_limit(4):
                while len(res["out"]) < kmax:
                    if close_at is not None and len(res["out"]) >= close_at:
                        break
                    try:
                        v = next(gen)
                    except StopIteration:
                        res["exhausted"] = True
                        break
                    res["out"].append(v)
                    del v
                    res["pulls"].append(src.pulled)
                    src.peak = max(src.peak, src.alive())
        except fl.Watchdog:
            res["timeout"] = True
        except Exception as exc:    # noqa
            res["raised"] = exc_name(exc)
        before = src.pulled
        try:
            with fl.time_limit(4):
                if stopkind == "abandon":
                    del gen
                else:
                    if stopkind == "throw" and hasattr(gen, "throw"):
                        try:
                            gen.throw(Boom())
                            res["throw_swallowed"] = True
                        except (Boom, StopIteration):
                            pass
                    elif hasattr(gen, "close"):
                        gen.close()
                    if hasattr(gen, "close") and not res.get("throw_swallowed"):
                        try:
                            next(gen)
                            res["resumed_after_stop"] = True
                        except StopIteration:
                            pass
                        except Exception as exc:    # noqa
                            res["raised_after_stop"] = exc_name(exc)
        except fl.Watchdog:
            res["timeout"] = True
        res["pulled_by_stop"] = src.pulled - before
    res["end"] = src.pulled
    res["alive"] = src.peak
    return res


def shape(sc):
    c = sc["cfg"]
    s = "%s:%s:%s%s%s" % (sc["mode"], c["kind"], "bufin" if c["bufIn"] else "bufout", ":reset" if c["reset"] else "",
                          ":yor" if c["yor"] or sc["oyor"] else "")
    return s + (":pre=" + sc["pre"] if sc["pre"] != "none" else "") + (":slice" if sc["k"] else "")


def alive_limit(bound):
    """Values of the flow alive at once: a block (the documented buffer), the next block being read while the
    previous one is released, and the value in hand - independent of the length of the flow."""
    return 2 * bound + 2


def replay(rec, salt=0):
    """All comparisons of one exported behaviour; returns (list of (key, detail), evaluations)."""
    sc, n, exp_out, pulls = rec["sc"], rec["n"], rec["out"], rec["pulls"]
    bad, nev = [], 0
    kmax = len(exp_out) + (1 if rec["exhausted"] else 0)
    sh = shape(sc)
    builds = builds_for(sc)
    for build in builds:
        r = observe(sc, n, kmax, build)
        nev += 1
        where = {"sc": sc, "n": n, "build": build}
        if r["pulled_at_run"]:
            bad.append(("work-before-demand:" + sh, dict(where, observed=r)))
        if r.get("timeout"):
            bad.append(("no-termination:" + sh, dict(where, expected_pulls=pulls)))
            return bad, nev
        if r["out"] != exp_out or r.get("raised"):
            bad.append(("output:" + sh, dict(where, expected=exp_out, observed=r["out"], raised=r.get("raised"))))
            continue
        over = [j for j in range(len(pulls)) if r["pulls"][j] > pulls[j]]
        if over:
            bad.append(("eager:" + sh, dict(where, delivery=over[0] + 1, spec_pulls=pulls, impl_pulls=r["pulls"])))
        if rec["exhausted"] and r.get("exhausted") and r["end"] > rec["endpos"]:
            bad.append(("eager-at-end:" + sh, dict(where, spec_end_pulls=rec["endpos"], impl_end_pulls=r["end"])))
        if rec["exhausted"] and not r.get("exhausted"):
            bad.append(("output:more-results:" + sh, dict(where, expected=exp_out)))
        if r.get("pulled_by_stop") or r.get("resumed_after_stop"):
            bad.append(("pull-on-close:" + sh, dict(where, observed=r)))
        if r["alive"] > alive_limit(rec["bound"]):
            bad.append(("retained:" + sh, dict(where, alive=r["alive"], block=rec["bound"])))
    for k in range(len(exp_out)):
        stopkind = STOPKINDS[(k + n + salt) % 3]
        build = builds[(k + 2 * n + salt) % len(builds)]
        r = observe(sc, n, kmax, build, stop=(k, stopkind))
        nev += 1
        lim = pulls[k - 1] if k else 0
        if (r["out"] != exp_out[:k] or r["end"] > lim or r.get("raised") or r.get("timeout")
                or r.get("resumed_after_stop") or r.get("raised_after_stop") or r.get("throw_swallowed")):
            bad.append(("stop-at-k:%s%s" % (sh, "" if stopkind == "close" else ":" + stopkind),
                        {"sc": sc, "n": n, "k": k, "stop": stopkind, "allowed_pulls": lim, "build": build, "observed": r}))
    return bad, nev


def _job(args):
    recs, salt = args
    import lena.core    # noqa  (not under the watchdog of the first run)
    import lena.flow    # noqa
    found, nev = {}, 0
    import json
    hangs = 0
    for rec in recs:
        if hangs >= 2:
            break           # every further scenario would wait for the watchdog again; the failure is reported
        bad, k = replay(rec, salt)
        nev += k
        hangs += sum(1 for key, _ in bad if key.startswith("no-termination:"))
        for key, detail in bad:
            size = len(json.dumps(detail, default=repr))
            if key not in found or size < found[key][0]:
                found[key] = (size, detail)
    return found, nev


def random_sc(rnd):
    mode = rnd.choice(["run", "run", "seq", "split"])
    cfg = {"n": rnd.randint(1, 5), "bufIn": rnd.random() < 0.5, "reset": rnd.random() < 0.5,
           "yor": mode == "run" and rnd.random() < 0.4, "kind": rnd.choice(["fc", "run"]) if mode == "run" else "fc",
           "m": rnd.choice([0, 1, 1, 2, 3]), "pv": False, "take": 0}
    return {"mode": mode, "cfg": cfg, "B2": 0 if mode == "run" else rnd.randint(1, 6),
            "oyor": mode == "seq" and rnd.random() < 0.4, "pre": rnd.choice(["none", "even", "inc"]),
            "k": rnd.choice([0, 0, 1, 2, 4])}


def record(rnd, long_flow=False):
    import lena.core    # noqa
    import lena.flow    # noqa
    sc = random_sc(rnd)
    if long_flow:
        sc["cfg"]["n"] = min(sc["cfg"]["n"], 3)
        sc["B2"] = min(sc["B2"], 3)
        sc["k"] = 0
        sc["cfg"]["reset"] = True       # the results stay small
    n = 48 if long_flow else rnd.randint(0, 14)
    bound = max(sc["cfg"]["n"], sc["B2"])
    r = observe(sc, n, 10 ** 6, rnd.choice(builds_for(sc)))
    if r.get("timeout") or r.get("raised"):
        return {"sc": sc, "n": n, "failed": r.get("raised") or "timeout"}
    return {"sc": sc, "n": n, "out": r["out"], "pulls": [] if long_flow else r["pulls"], "lazy": not long_flow,
            "alive": r["alive"], "slack": alive_limit(bound) - bound, "end": r["end"], "at_run": r["pulled_at_run"]}
