"""Harness for spec/Binned.tla: a binned analysis run end to end on the real lena.

    Source(ReadEvents,
           [Split([branch, ...], bufsize) | the elements of the only branch],
           MakeFilename("{{bins.variable.name}}/{{bin.edges_str}}"),
           MakeFilename("{{variable.name}}/{{value.variable.name}}"),
           ToCSV(), Write(dir))
    branch = (SplitIntoBins(seq, arg_var, edges), IterateBins() | MapBins(Variable), MakeFilename(suffix=...))

A history is a list of runs in one output directory over changing data.  `execute_run` runs the real pipeline once
and *observes* it in the vocabulary of the model: the yielded structures (name, csv rows read back from the file
they name, context.bin / context.bins / context.variable / context.histogram), the directory (names parsed to the
model's name records, contents decoded to rows), the files written (audit hook on open), the events read.
S2C (`replay_history`): the observation of every run of an exported behaviour must equal the model's state.
C2S (`record_history`): observations of seeded random analyses become records for Trace_Binned.tla.
"""
from __future__ import print_function

import os
import re
import shutil
import sys

_audit = {"on": False, "root": None, "writes": [], "installed": False}


def _hook(event, args):
    if event == "open" and _audit["on"]:
        path, mode = args[0], args[1]
        if isinstance(path, str) and isinstance(mode, str) and path.startswith(_audit["root"]) \
                and any(c in mode for c in "wax+"):
            _audit["writes"].append(path)


def _install():
    if not _audit["installed"]:
        sys.addaudithook(_hook)
        _audit["installed"] = True


class ReadEvents(object):
    """Yields the events one by one (lazily), each with what the reader knows about it."""

    def __init__(self, events):
        self.events = events
        self.pulled = 0

    def __call__(self):
        for ev in self.events:
            self.pulled += 1
            yield (tuple(ev), {"source": {"name": "data"}})


def _twice(s):
    return 2 * s


def _same(c):
    return c


def pipeline(outdir, brs, bs, ed, events):
    import lena.flow
    import lena.math
    from lena.core import Source, Split, FillComputeSeq
    from lena.structures import Histogram, SplitIntoBins, IterateBins, MapBins
    from lena.output import ToCSV, Write, MakeFilename
    from lena.variables import Variable, Combine
    ex, ey, eh = [list(e) for e in ed]
    X = Variable("x", lambda ev: ev[0], type="coordinate")
    Y = Variable("y", lambda ev: ev[1], type="coordinate")
    args = {"x": (X, ex), "y": (Y, ey), "xy": (Combine(X, Y, name="xy"), [ex, ey])}
    var = {"x": X, "y": Y}
    branches = []
    for b in brs:
        arg, edges = args[b["arg"]]
        sfx = MakeFilename(suffix="_%s_%s" % (b["an"], b["v"]))
        if b["an"] == "hist":
            branches.append((SplitIntoBins(FillComputeSeq(var[b["v"]], Histogram(list(eh))), arg, edges),
                             IterateBins(), sfx))
        elif b["an"] == "sum":
            branches.append((SplitIntoBins(FillComputeSeq(var[b["v"]], lena.math.Sum()), arg, edges),
                             MapBins(Variable("twice", _twice)), sfx))
        else:
            branches.append((SplitIntoBins(lena.flow.Count(), arg, edges), MapBins(Variable("val", _same)), sfx))
    reader = ReadEvents(events)
    if bs == 0:
        assert len(branches) == 1
        middle = branches[0]
    else:
        middle = (Split(branches, bufsize=None if bs >= 1000 else bs),)
    seq = Source(*((reader,) + tuple(middle) + (
        MakeFilename("{{bins.variable.name}}/{{bin.edges_str}}"),
        MakeFilename("{{variable.name}}/{{value.variable.name}}"),
        ToCSV(),
        Write(outdir, verbose=False),
    )))
    return seq, reader


def _num(x):
    v = float(x)
    return int(v) if v == int(v) else v


def decode_csv(text):
    try:
        return [[_num(x) for x in line.split(",")] for line in text.split("\n") if line]
    except ValueError:
        return {"undecodable": text[:200]}


_CELL = re.compile(r"(-?\d+)_lte_([a-z]+)_lt_(-?\d+)_")
_NAME = re.compile(r"^(x|y|xy)/((?:-?\d+_lte_[a-z]+_lt_-?\d+_)+|twice_|val_)(hist|sum|count)_(x|y|all)$")


def parse_name(stem):
    """'x/0_lte_x_lt_2_hist_y' -> the model's name record (and the coordinate names used in it)."""
    m = _NAME.match(stem)
    if not m:
        return {"arg": "?", "cell": [], "an": "?", "v": stem}, []
    arg, mid, an, v = m.groups()
    cells = _CELL.findall(mid)
    if not cells and ((mid == "twice_") != (an == "sum")):
        return {"arg": "?", "cell": [], "an": "?", "v": stem}, []
    return ({"arg": arg, "cell": [[int(lo), int(hi)] for lo, _, hi in cells], "an": an, "v": v},
            [c for _, c, _ in cells])


def render_name(name, coords):
    """The file name MakeFilename documents for a model name record."""
    if name["cell"]:
        mid = "_".join("%d_lte_%s_lt_%d" % (lo, c, hi) for (lo, hi), c in zip(name["cell"], coords))
    else:
        mid = "twice" if name["an"] == "sum" else "val"
    return "%s/%s_%s_%s" % (name["arg"], mid, name["an"], name["v"])


def _key(name):
    return (name["arg"], tuple(tuple(p) for p in name["cell"]), name["an"], name["v"])


def _vardesc(var):
    if not isinstance(var, dict):
        return {"name": "?", "dim": 0, "combine": [], "type": "?"}
    comb = var.get("combine", ())
    return {"name": var.get("name", "-"), "dim": var.get("dim", 1),
            "combine": [c.get("name", "?") if isinstance(c, dict) else "?" for c in comb],
            "type": var.get("type", "-")}


def _srcname(ctx):
    s = ctx.get("source", "-") if isinstance(ctx, dict) else "?"
    return s.get("name", "?") if isinstance(s, dict) else s


def execute_run(outdir, brs, bs, ed, data):
    """One run of the real analysis, observed.  -> dict, or {"raised": name} when lena raised."""
    events = [tuple(ev) for ev in data]
    _install()
    _audit["root"] = outdir
    _audit["writes"] = []
    _audit["on"] = True
    try:
        seq, reader = pipeline(outdir, brs, bs, ed, events)
        results = list(seq())
    except Exception as exc:   # noqa
        return {"raised": type(exc).__name__, "exception": repr(exc)}
    finally:
        _audit["on"] = False
    # ---- the directory (outside the try: a harness error is not lena's)
    files = {}
    texts = {}
    if os.path.isdir(outdir):
        for dp, dn, fn in os.walk(outdir):
            for f in fn:
                full = os.path.join(dp, f)
                stem, ext = os.path.splitext(os.path.relpath(full, outdir))
                name, _ = parse_name(stem.replace(os.sep, "/"))
                if ext != ".csv":
                    name = dict(name, arg="?", v=stem + ext)
                with open(full) as fh:
                    texts[full] = fh.read()
                files[_key(name)] = (name, decode_csv(texts[full]))
    wrote = {}
    for p in _audit["writes"]:
        stem = os.path.splitext(os.path.relpath(p, outdir))[0]
        name, _ = parse_name(stem.replace(os.sep, "/"))
        wrote[_key(name)] = name
    # ---- the yielded structures
    out = []
    for val in results:
        if not (isinstance(val, tuple) and len(val) == 2 and isinstance(val[1], dict) and isinstance(val[0], str)):
            out.append({"name": {"arg": "?", "cell": [], "an": "?", "v": repr(val)[:80]}, "kind": "?"})
            continue
        path, ctx = val
        stem = os.path.splitext(os.path.relpath(path, outdir))[0].replace(os.sep, "/")
        name, coords_in_name = parse_name(stem)
        o = ctx.get("output", {})
        hc = ctx.get("histogram", {})
        binc = ctx.get("bin")
        rec = {
            "name": name, "path_ok": path == os.path.join(outdir, stem + ".csv") and path.endswith(".csv"),
            "filename": o.get("filename"), "filetype": o.get("filetype"), "leftover": sorted(set(o) & {"prefix", "suffix"}),
            "rows": decode_csv(texts[path]) if path in texts else {"no-such-file": path},
            "oor": hc.get("n_out_of_range", -1), "hdim": hc.get("dim", -1), "nbins": list(hc.get("nbins", [])),
            "ranges": [list(r) for r in hc.get("ranges", [])],
            "source": _srcname(ctx),
        }
        if isinstance(binc, dict):
            bins = ctx.get("bins", {})
            rec.update({
                "kind": "cell", "cell": [list(p) for p in binc.get("edges", ())], "edges_str": binc.get("edges_str"),
                "coords": coords_in_name, "avar": _vardesc(bins.get("variable")),
                "var": ctx.get("variable", {}).get("name", "-") if isinstance(ctx.get("variable", {}), dict) else "?",
                "binsource": _srcname(bins),
            })
        else:
            value = ctx.get("value", {})
            vv = value.get("variable", {}) if isinstance(value, dict) else {}
            avar = _vardesc(ctx.get("variable"))
            rec.update({
                "kind": "map", "cell": [], "edges_str": None, "coords": avar["combine"] or [avar["name"]],
                "avar": avar, "var": vv.get("name", "-") if isinstance(vv, dict) else "?", "binsource": rec["source"],
            })
        out.append(rec)
    return {"out": out, "files": files, "wrote": wrote, "pulled": reader.pulled}


def shape(brs, bs):
    return "branches=%s:bufsize=%s" % ("+".join("%s-%s-%s" % (b["arg"], b["an"], b["v"]) for b in brs),
                                       "nosplit" if bs == 0 else bs)


def _ctx_mismatch(g, w):
    """Compare one observed structure with the model's; -> kind of mismatch or None."""
    if g.get("kind") == "?" or _key(g["name"]) != _key(w["name"]) or not g["path_ok"] \
            or g["filename"] != render_name(w["name"], w["coords"]) or g["filetype"] != "csv" or g["leftover"]:
        return "structure-named-differently"
    if g["kind"] != w["kind"]:
        return "structure-kind"
    if g["rows"] != [list(r) for r in w["rows"]]:
        return "content-is-not-this-cell's-analysis" if w["kind"] == "cell" else "content-is-not-the-mapped-cells"
    if w["kind"] == "cell":
        if g["cell"] != [list(p) for p in w["cell"]] or g["coords"] != list(w["coords"]) \
                or g["edges_str"] != render_name(w["name"], w["coords"]).split("/", 1)[1][:-len("_%s_%s" % (w["name"]["an"], w["name"]["v"]))]:
            return "context.bin-describes-another-cell"
        if g["oor"] != w["oor"]:
            return "histogram-context-of-another-cell"
    if g["avar"] != dict(w["avar"], combine=list(w["avar"]["combine"])):
        return "arg-variable-context"
    if g["hdim"] != w["hdim"] or g["nbins"] != list(w["nbins"]) or g["ranges"] != [list(r) for r in w["ranges"]]:
        return "histogram-context"
    # carried by the values: stated only where a value was filled
    if w["filled"] and (g["var"] != w["var"] or g["source"] != "data"):
        return "analysis-context"
    if w["kind"] == "map" and g["var"] != w["var"]:
        return "value-variable-context"
    if w["src"] and g["binsource"] != "data":
        return "events-context-lost"
    return None


def replay_history(rec, root):
    """S2C.  rec: an exported behaviour of Binned.tla.  -> (list of (key, detail), number of comparisons)"""
    bad = []
    n = 0
    shutil.rmtree(root, ignore_errors=True)
    outdir = os.path.join(root, "output")
    where = shape(rec["brs"], rec["bs"])

    def fail(kind, j, detail):
        what = "first-run" if j == 0 else "rerun"
        bad.append(("Binned:%s:%s:%s" % (kind, what, where),
                    dict(detail, history=[r["src"] for r in rec["runs"][:j + 1]], branches=rec["brs"],
                         bufsize=rec["bs"], edges=rec["ed"])))

    for j, run in enumerate(rec["runs"]):
        obs = execute_run(outdir, rec["brs"], rec["bs"], rec["ed"], run["src"])
        if "raised" in obs:
            fail("raised:%s" % obs["raised"], j, obs)
            break
        n += 1
        if len(obs["out"]) != len(run["out"]):
            fail("number-of-structures", j, {"got": [g["name"] for g in obs["out"]], "want": [w["name"] for w in run["out"]]})
            break
        for g, w in zip(obs["out"], run["out"]):
            n += 1
            kind = _ctx_mismatch(g, w)
            if kind:
                fail(kind, j, {"got": g, "want": w})
                break
        if bad:
            break
        want_files = dict((_key(f["key"]), [list(r) for r in f["c"]]) for f in run["files"])
        if set(obs["files"]) != set(want_files):
            fail("files-present", j, {"got": sorted(map(repr, obs["files"])), "want": sorted(map(repr, want_files))})
            break
        for key in sorted(want_files):
            n += 1
            if obs["files"][key][1] != want_files[key]:
                fail("file-content", j, {"file": repr(key), "got": obs["files"][key][1], "want": want_files[key]})
                break
        if bad:
            break
        n += 2
        if set(obs["wrote"]) != set(_key(k) for k in run["wrote"]):
            fail("files-written", j, {"got": sorted(map(repr, obs["wrote"])), "want": sorted(repr(_key(k)) for k in run["wrote"])})
            break
        if obs["pulled"] != len(run["src"]):
            fail("events-read", j, {"got": obs["pulled"], "want": len(run["src"])})
            break
    shutil.rmtree(root, ignore_errors=True)
    return bad, n


ARGS = ("x", "y", "xy")


def record_history(rnd, root):
    """C2S.  One seeded random binned analysis history on the real code -> list of records for Trace_Binned.tla
    (or a list ending with {"raised": ...})."""
    allbr = [{"arg": a, "an": an, "v": v} for a in ARGS for an in ("hist", "sum") for v in ("x", "y")] + \
            [{"arg": a, "an": "count", "v": "all"} for a in ARGS]
    brs = rnd.sample(allbr, rnd.randint(1, 4))
    bs = rnd.choice([1, 2, 3, 5, 1000] + ([0] if len(brs) == 1 else []))
    ed = [sorted(rnd.sample(range(-3, 9), rnd.randint(2, 4))), sorted(rnd.sample(range(-3, 9), rnd.randint(2, 3))),
          sorted(rnd.sample(range(-3, 9), rnd.randint(2, 4)))]

    def events(k):
        return [[rnd.randint(-4, 10), rnd.randint(-4, 10)] for _ in range(k)]

    data = events(rnd.randint(0, 10))
    recs = []
    shutil.rmtree(root, ignore_errors=True)
    outdir = os.path.join(root, "output")
    for j in range(rnd.randint(2, 4)):
        if j > 0:
            how = rnd.random()
            if how < 0.3:
                pass                                  # same data
            elif how < 0.6:
                data = data + events(1)                # one more event
            elif how < 0.8:
                data = list(reversed(data))            # same events, another order: same contents
            else:
                data = events(rnd.randint(0, 10))
        obs = execute_run(outdir, brs, bs, ed, data)
        if "raised" in obs:
            recs.append({"raised": obs["raised"], "exception": obs["exception"], "brs": brs, "bs": bs, "ed": ed, "src": data})
            break
        out = []
        for g in obs["out"]:
            if g.get("kind") == "?":
                out.append({"name": g["name"], "kind": "?", "named": False, "rows": [], "cell": [], "coords": [],
                            "avar": _vardesc(None), "var": "?", "source": "?", "binsource": "?", "oor": -1, "hdim": -1,
                            "nbins": [], "ranges": []})
                continue
            coords = g["coords"]
            named = bool(g["path_ok"] and g["filetype"] == "csv" and not g["leftover"] and
                         g["filename"] == render_name(g["name"], coords) and
                         (g["kind"] == "map" or (g["edges_str"] or "") + "_%s_%s" % (g["name"]["an"], g["name"]["v"]) ==
                          g["filename"].split("/", 1)[-1]))
            out.append({"name": g["name"], "kind": g["kind"], "named": named,
                        "rows": g["rows"] if isinstance(g["rows"], list) else [[-999]],
                        "cell": g["cell"], "coords": coords, "avar": g["avar"], "var": g["var"], "source": g["source"],
                        "binsource": g["binsource"], "oor": g["oor"], "hdim": g["hdim"], "nbins": g["nbins"],
                        "ranges": g["ranges"]})
        recs.append({
            "first": j == 0, "brs": brs, "bs": bs, "ed": ed, "src": [list(e) for e in data],
            "files": [{"key": nm, "c": c if isinstance(c, list) else [[-999]]}
                      for _, (nm, c) in sorted(obs["files"].items(), key=lambda t: repr(t[0]))],
            "wrote": [nm for _, nm in sorted(obs["wrote"].items(), key=lambda t: repr(t[0]))],
            "out": out, "pulled": obs["pulled"],
        })
    shutil.rmtree(root, ignore_errors=True)
    return recs


def _job(args):
    recs, root = args
    out = []
    n = 0
    for k, rec in recs:
        bad, m = replay_history(rec, os.path.join(root, "h%d" % k))
        n += m
        out.extend((k, key, detail) for key, detail in bad)
    return out, n
