"""./check <ID> [--tier quick|thorough] [--replay path]"""
from __future__ import print_function
import argparse
import importlib
import os
import random
import sys
import traceback

from . import core


def main(argv=None):
    ap = argparse.ArgumentParser()
    ap.add_argument("pid")
    ap.add_argument("--tier", default=os.environ.get("VERIF_TIER", "quick"))
    ap.add_argument("--replay", default=None)
    args = ap.parse_args(argv)
    seed = int(os.environ.get("VERIF_SEED", "0") or 0)
    random.seed(seed)
    repo = os.environ.get("LENA_REPO", "/repo")
    if repo not in sys.path:
        sys.path.insert(0, repo)
    pid = args.pid.upper()
    ctx = core.Ctx(pid, args.tier, seed, replay=args.replay)
    try:
        mod = importlib.import_module("lenaverif.props." + pid.lower())
        rc = mod.run(ctx)
    except core.MachineryError as exc:
        print("MACHINERY-ERROR %s: %s" % (pid, exc))
        return 2
    except Exception:
        traceback.print_exc()
        print("MACHINERY-ERROR %s: unexpected exception" % pid)
        return 2
    return rc


if __name__ == "__main__":
    sys.exit(main())
