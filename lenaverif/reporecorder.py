"""pytest plugin (lives in /verif; nothing under the repository is changed): REPO binding of DESIGN.md 2.1.

While the repository's own test-suite runs, the calls it makes to APIs that already have trace
specifications are recorded:

  lena.flow.Slice          run over any iterable that the consumer exhausts; fill_into histories per instance
  histogram.fill           per instance sessions: coordinate, weight, bins / n_out_of_range after every fill,
                           and what get_bin_on_value returns for that coordinate
  get_bin_on_value_1d      value, array, returned index
  Sum, DSum, Mean, VarianceMeanCount, Count, StoreFilled
                           fill / compute / reset histories per instance

Usage:  LENAVERIF_RECORD=<out.json> pytest -p lenaverif.reporecorder ...

Only what can be expressed in the record formats of Trace_Slice / Trace_Histogram / Trace_BinSearch /
Trace_Accumulators is kept; everything else is counted in "skipped" and passed through untouched.  The
wrappers never change a result or an exception.
"""
import copy
import functools
import json
import math
import os

RAW = {"slice": [], "hist": [], "search": [], "acc": []}
SKIPPED = {}
_BUSY = [False]
LIMIT = 4000
NONE = -1000


def skip(what):
    SKIPPED[what] = SKIPPED.get(what, 0) + 1


class busy(object):
    def __enter__(self):
        self.prev = _BUSY[0]
        _BUSY[0] = True

    def __exit__(self, *exc):
        _BUSY[0] = self.prev
        return False


def is_num(x):
    return isinstance(x, (int, float)) and not isinstance(x, bool) and not (isinstance(x, float) and math.isnan(x))


# --------------------------------------------------------------------------- Slice
def _slice_args(args):
    try:
        s = slice(*args)
    except Exception:   # noqa
        return None
    out = []
    for v in (s.start, s.stop, s.step):
        if v is None:
            out.append(NONE)
        elif type(v) is int and abs(v) < 10 ** 6:
            out.append(v)
        else:
            return None
    return out


class _Tap(object):
    """Iterator over the input of a run that remembers what was pulled."""

    def __init__(self, flow):
        self.it = iter(flow)
        self.items = []
        self.exhausted = False

    def __iter__(self):
        return self

    def __next__(self):
        try:
            v = next(self.it)
        except StopIteration:
            self.exhausted = True
            raise
        self.items.append(v)
        return v
    next = __next__


def _recorded_run(orig_run, args):
    def run(flow):
        if _BUSY[0] or len(RAW["slice"]) >= LIMIT:
            return orig_run(flow)
        tap = _Tap(flow)
        inner = orig_run(tap)

        def gen():
            outs = []
            for v in inner:
                outs.append(v)
                yield v
            # the consumer exhausted the run: encode positions by identity
            try:
                items = tap.items
                if len(set(map(id, items))) != len(items) or len(items) > 400:
                    skip("slice.run:duplicate-or-many-inputs")
                    return
                pos = dict((id(x), k) for k, x in enumerate(items))
                idx = [pos.get(id(o), -1) for o in outs]
                if -1 in idx:
                    skip("slice.run:output-not-an-input")
                    return
                RAW["slice"].append({"op": "run", "a": args[0], "b": args[1], "s": args[2], "n": len(items), "out": idx,
                                     "exhausted": tap.exhausted})
            except Exception:   # noqa
                skip("slice.run:encode")
        return gen()
    return run


class _FillProxy(object):
    def __init__(self, element, hit):
        self._e, self._hit = element, hit

    def fill(self, value):
        self._hit.append(True)
        return self._e.fill(value)

    def __getattr__(self, name):
        return getattr(self._e, name)


def wrap_slice(Slice, LenaStopFill):
    orig_init = Slice.__init__
    orig_fill_into = Slice.fill_into
    orig_run = Slice.run

    @functools.wraps(orig_init)
    def __init__(self, *args):
        orig_init(self, *args)
        with busy():
            a = _slice_args(args)
            if a is None:
                skip("slice:arguments")
                self._lv = None
                return
            self._lv = {"args": a, "n": 0, "filled": [], "stop": NONE, "mixed": False}
            # negative indices install run as an instance attribute; wrap whatever is there
            self.run = _recorded_run(self.__dict__.get("run") or functools.partial(orig_run, self), a)

    @functools.wraps(orig_fill_into)
    def fill_into(self, element, value):
        st = getattr(self, "_lv", None)
        if _BUSY[0] or st is None or st["stop"] != NONE:
            return orig_fill_into(self, element, value)
        hit = []
        try:
            res = orig_fill_into(self, _FillProxy(element, hit), value)
        except LenaStopFill:
            st["stop"] = st["n"]
            raise
        if hit:
            st["filled"].append(st["n"])
        st["n"] += 1
        if not st.get("registered"):
            st["registered"] = True
            _FILL_SESSIONS.append(st)
        return res

    Slice.__init__ = __init__
    Slice.fill_into = fill_into


_FILL_SESSIONS = []


# --------------------------------------------------------------------------- histogram.fill, get_bin_on_value_1d
def _zero(b):
    if isinstance(b, list):
        return all(_zero(x) for x in b)
    return is_num(b) and b == 0


def _numeric(b):
    if isinstance(b, list):
        return all(_numeric(x) for x in b)
    return is_num(b)


def _edges_ok(edges):
    if not isinstance(edges, (list, tuple)) or not edges:
        return None
    if all(is_num(x) for x in edges):
        return [list(edges)]
    if all(isinstance(a, (list, tuple)) and a and all(is_num(x) for x in a) for a in edges):
        return [list(a) for a in edges]
    return None


def wrap_histogram(histogram, get_bin_on_value):
    orig_fill = histogram.fill

    @functools.wraps(orig_fill)
    def fill(self, coord, weight=1):
        if _BUSY[0] or len(RAW["hist"]) >= LIMIT:
            return orig_fill(self, coord, weight)
        plan = None
        with busy():
            try:
                axes = _edges_ok(self.edges)
                dim = len(axes) if axes else 0
                c = [coord] if dim == 1 and is_num(coord) else (list(coord) if isinstance(coord, (list, tuple)) else None)
                if (axes is None or c is None or len(c) != dim or not all(is_num(x) for x in c) or not is_num(weight)
                        or not _numeric(self.bins) or not is_num(getattr(self, "n_out_of_range", 0))):
                    skip("hist.fill:not-numeric")
                else:
                    before = (copy.deepcopy(self.bins), self.n_out_of_range)
                    plan = (axes, c, before)
            except Exception:   # noqa
                skip("hist.fill:inspect")
        res = orig_fill(self, coord, weight)       # exceptions propagate unrecorded
        if plan is None:
            self.__dict__.pop("_lv_sess", None)
            return res
        with busy():
            try:
                axes, c, before = plan
                sess = self.__dict__.get("_lv_sess")
                if sess is not None and (sess["after"] != before or sess["axes"] != axes):
                    sess = None                     # modified in between (scale, add, ...): that session is over
                if sess is None:
                    if not (_zero(before[0]) and before[1] == 0):
                        skip("hist.fill:not-fresh")
                        self.__dict__.pop("_lv_sess", None)
                        return res
                    sess = {"axes": axes, "fills": [], "after": None}
                    RAW["hist"].append(sess)
                    self.__dict__["_lv_sess"] = sess
                idx = [int(i) for i in get_bin_on_value(coord, self.edges)]
                sess["after"] = (copy.deepcopy(self.bins), self.n_out_of_range)
                sess["fills"].append({"c": c, "w": weight, "idx": idx, "bins": sess["after"][0], "oor": sess["after"][1]})
            except Exception:   # noqa
                skip("hist.fill:record")
                self.__dict__.pop("_lv_sess", None)
        return res
    histogram.fill = fill


def wrap_search(mods, name):
    orig = getattr(mods[0], name)

    @functools.wraps(orig)
    def get_bin_on_value_1d(val, arr):
        res = orig(val, arr)
        if _BUSY[0] or len(RAW["search"]) >= LIMIT:
            return res
        with busy():
            try:
                if is_num(val) and isinstance(arr, (list, tuple)) and len(arr) <= 200 and all(is_num(x) for x in arr) \
                        and type(res) is int:
                    RAW["search"].append({"arr": list(arr), "val": val, "res": res})
                else:
                    skip("search:not-numeric")
            except Exception:   # noqa
                skip("search:record")
        return res
    for m in mods:
        if getattr(m, name, None) is orig:
            setattr(m, name, get_bin_on_value_1d)


# --------------------------------------------------------------------------- accumulators
def _kind_of(cls_name, args, kwargs):
    def arg(i, key, default):
        if key in kwargs:
            return kwargs[key]
        return args[i] if len(args) > i else default
    if cls_name == "Sum":
        t = arg(0, "total", 0)
        return {"t": "Sum", "start": t} if type(t) is int and abs(t) < 10 ** 6 else None
    if cls_name == "DSum":
        return {"t": "DSum", "dstart": []} if arg(0, "total", 0) == 0 and type(arg(0, "total", 0)) is int else None
    if cls_name == "Mean":
        if arg(0, "sum_seq", None) is not None:
            return None
        return {"t": "Mean", "inner": "py", "poe": bool(arg(1, "pass_on_empty", False))}
    if cls_name == "VarianceMeanCount":
        if arg(0, "sum_sq", None) is not None or arg(1, "sum_", None) is not None:
            return None
        return {"t": "VMC", "corr": bool(arg(2, "corrected", True)), "poe": bool(arg(3, "pass_on_empty", False)), "given": False}
    if cls_name == "Count":
        nm, c = arg(0, "name", "count"), arg(1, "count", 0)
        return {"t": "Count", "name": nm, "start": c} if nm in ("count", "n2") and type(c) is int and abs(c) < 10 ** 6 else None
    if cls_name == "StoreFilled":
        return {"t": "Store", "grp": bool(arg(0, "yield_as_a_group", True))}
    return None


def _enc_fill(al, kind, value):
    """(spec value, python data) or None when the value is outside the spec's domain."""
    if al._has_context(value):
        data, c, h = value[0], value[1], True
        c = al.enc_ctx(c)
        if not al.well_shaped(c):
            return None
    else:
        data, c, h = value, {}, False
    if kind["t"] == "DSum":
        if not is_num(data) or isinstance(data, float) and math.isinf(data):
            return None
        d = al.to_limbs(data)
        if d is None:
            return None
    else:
        if type(data) is not int or abs(data) > 10 ** 4:
            return None
        d = data
    return {"d": d, "c": copy.deepcopy(c), "h": h}, data


def wrap_accumulator(cls, al, extra_invalidating=()):
    name = cls.__name__
    orig_init, orig_fill, orig_compute = cls.__init__, cls.fill, cls.compute
    orig_reset = getattr(cls, "reset", None)

    def state(self):
        return self.__dict__.get("_lv_acc")

    def drop(self, why):
        st = state(self)
        if st is not None and not st["dead"]:
            st["dead"] = True
            skip("acc:%s:%s" % (name, why))

    @functools.wraps(orig_init)
    def __init__(self, *args, **kwargs):
        orig_init(self, *args, **kwargs)
        if _BUSY[0] or type(self) is not cls or len(RAW["acc"]) >= LIMIT:
            return
        with busy():
            try:
                kind = _kind_of(name, args, kwargs)
                if kind is None:
                    skip("acc:%s:constructor-arguments" % name)
                    return
                st = {"kind": kind, "events": [{"ev": "new", "kind": kind, "k": al.label(kind)}], "fills": [], "dead": False,
                      "nfill": 0}
                self.__dict__["_lv_acc"] = st
                RAW["acc"].append(st)
            except Exception:   # noqa
                skip("acc:%s:init" % name)

    @functools.wraps(orig_fill)
    def fill(self, value):
        st = state(self)
        if _BUSY[0] or st is None or st["dead"]:
            return orig_fill(self, value)
        enc = None
        with busy():
            try:
                enc = _enc_fill(al, st["kind"], value) if st["nfill"] < 60 else None
            except Exception:   # noqa
                enc = None
        try:
            res = orig_fill(self, value)
        except BaseException:
            drop(self, "fill-raised")
            raise
        if enc is None:
            drop(self, "value-outside-the-spec-domain")
        else:
            st["events"].append({"ev": "f", "v": enc[0], "k": st["events"][0]["k"]})
            st["fills"].append(enc[1])
            st["nfill"] += 1
        return res

    @functools.wraps(orig_compute)
    def compute(self):
        st = state(self)
        gen = orig_compute(self)
        if _BUSY[0] or st is None or st["dead"]:
            return gen
        kind, fills = st["kind"], list(st["fills"])
        if _tampered(kind, self):
            drop(self, "private-attributes-changed")
            return gen

        def tapped():
            items = []
            try:
                for x in gen:
                    with busy():
                        try:
                            items.append(al.snap(kind, x))
                        except Exception:   # noqa
                            items.append(None)
                    yield x
            except Exception as exc:
                with busy():
                    obs = {"ok": False, "exc": al.exc_name(exc), "repr": ""}
                    _record_compute(st, al, kind, obs, fills)
                raise
            with busy():
                if None in items:
                    drop(self, "result-snapshot")
                else:
                    _record_compute(st, al, kind, {"ok": True, "items": items}, fills)
        return tapped()

    cls.__init__, cls.fill, cls.compute = __init__, fill, compute
    if orig_reset is not None:
        @functools.wraps(orig_reset)
        def reset(self):
            st = state(self)
            res = orig_reset(self)
            if not _BUSY[0] and st is not None and not st["dead"]:
                st["events"].append({"ev": "r", "k": st["events"][0]["k"]})
                st["fills"] = []
            return res
        cls.reset = reset
    for meth in extra_invalidating:
        o = getattr(cls, meth, None)
        if o is None:
            continue

        def make(o):
            @functools.wraps(o)
            def w(self, *a, **k):
                drop(self, "other-method")
                return o(self, *a, **k)
            return w
        setattr(cls, meth, make(o))


def _tampered(kind, el):
    """white-box tests change private attributes; the kind derived from the constructor is then stale"""
    missing = object()
    want = {"VMC": ("_corrected", "_pass_on_empty"), "Mean": ("_pass_on_empty", "_sum_seq"),
            "Store": ("_yield_as_a_group",)}.get(kind["t"], ())
    got = dict((a, getattr(el, a, missing)) for a in want)
    if any(v is missing for v in got.values()):
        # this version of lena keeps that state elsewhere: tampering cannot be excluded, the instance is left out
        # (reduced coverage, counted under "skipped")
        skip("acc:%s:private-state-not-observable" % kind["t"])
        return True
    if kind["t"] == "VMC":
        return bool(got["_corrected"]) != kind["corr"] or bool(got["_pass_on_empty"]) != kind["poe"]
    if kind["t"] == "Mean":
        return bool(got["_pass_on_empty"]) != kind["poe"] or got["_sum_seq"] is not None
    if kind["t"] == "Store":
        return bool(got["_yield_as_a_group"]) != kind["grp"]
    return False


def _record_compute(st, al, kind, obs, fills):
    if st["dead"]:
        return
    try:
        st["events"].append({"ev": "c", "r": al.enc_observation(kind, obs, fills), "k": st["events"][0]["k"]})
    except al.Malformed:
        st["dead"] = True
        skip("acc:%s:result-outside-the-spec-domain" % kind["t"])
    except Exception:   # noqa
        st["dead"] = True
        skip("acc:%s:encode" % kind["t"])


# --------------------------------------------------------------------------- pytest hooks
def pytest_configure(config):
    import lena                       # noqa
    import lena.core
    import lena.flow
    import lena.flow.iterators
    import lena.flow.elements
    import lena.math
    import lena.math.elements
    import lena.structures
    import lena.structures.histogram
    import lena.structures.hist_functions
    try:
        # the wrappers cost time: do not let hypothesis deadlines turn that into test failures
        import hypothesis
        hypothesis.settings.register_profile("lenaverif", deadline=None)
        hypothesis.settings.load_profile("lenaverif")
    except Exception:   # noqa
        pass
    from . import acclib as al
    from .util import exc_name
    al.exc_name = exc_name
    wrap_slice(lena.flow.iterators.Slice, lena.core.LenaStopFill)
    wrap_histogram(lena.structures.histogram, lena.structures.hist_functions.get_bin_on_value)
    wrap_search([lena.structures.hist_functions, lena.structures], "get_bin_on_value_1d")
    for cls in (lena.math.elements.Sum, lena.math.elements.DSum, lena.math.elements.Mean,
                lena.math.elements.VarianceMeanCount, lena.flow.elements.StoreFilled):
        wrap_accumulator(cls, al)
    wrap_accumulator(lena.flow.elements.Count, al, extra_invalidating=("run", "fill_into"))


def pytest_unconfigure(config):
    out = os.environ.get("LENAVERIF_RECORD")
    if not out:
        return
    for st in _FILL_SESSIONS:
        if st["n"] or st["stop"] != NONE:
            a = st["args"]
            RAW["slice"].append({"op": "fill", "a": a[0], "b": a[1], "s": a[2], "n": st["n"], "filled": st["filled"],
                                 "stop": st["stop"]})
    acc = []
    for st in RAW["acc"]:
        # an instance that was never filled nor computed carries no information
        if len(st["events"]) > 1:
            acc.append({"kind": st["kind"], "events": st["events"], "truncated": st["dead"]})
    hist = [{"axes": s["axes"], "fills": s["fills"]} for s in RAW["hist"] if s["fills"]]
    with open(out, "w") as f:
        json.dump({"slice": RAW["slice"], "hist": hist, "search": RAW["search"], "acc": acc, "skipped": SKIPPED}, f)
