"""X05 harness: the scenarios of spec/Rendering.tla executed on the real output utilities of lena.

Every observe_* function takes a scenario shaped like the specification's `sc` and returns the observed result in the shape
of the specification's `res` (text tokenised back into the tokens of the scenario), plus the raw observation.
S2C: the observed result must equal the exported one.  C2S: the observed result is judged by Trace_Rendering.tla.
"""
import contextlib
import copy
import io
import json
import os
import pickle
import re
import stat
import subprocess
import tempfile
import time

# private names of lena this harness relies on and did not find (reduced coverage, never a violation)
NOT_OBSERVABLE = {}

# --------------------------------------------------------------------------- tokens <-> text
TEXT = {"A": "A", "B": "B", "OLD": "{{ variable.name }}", "NL": "\n", "SP": "    "}
SPECIAL = {"0": 0, "None": None, "False": False, "True": True}


def leaf_value(tok):
    return SPECIAL.get(tok, tok)


def leaf_token(v):
    return "" if v == "" else str(v)


def dec_value(v):
    k = v["k"]
    if k == "L":
        return leaf_value(v["v"])
    if k == "D":
        m = v["m"]
        return dict((key, dec_value(x)) for key, x in m.items()) if isinstance(m, dict) else {}
    if k == "S":
        return [dec_value(x) for x in v["s"]]
    raise ValueError(v)


def enc_value(x):
    if isinstance(x, dict):
        return {"k": "D", "m": dict((k, enc_value(v)) for k, v in x.items())}
    if isinstance(x, list):
        return {"k": "S", "s": [enc_value(v) for v in x]}
    return {"k": "L", "v": leaf_token(x)}


def leaves(x):
    if isinstance(x, dict):
        for v in x.values():
            for y in leaves(v):
                yield y
    elif isinstance(x, list):
        for v in x:
            for y in leaves(v):
                yield y
    else:
        yield x


def tokenize(text, vocab):
    """greedy longest match of *text* against vocab = [(string, token)]; what cannot be matched becomes one '?' token"""
    vocab = sorted([(s, t) for s, t in vocab if s], key=lambda p: -len(p[0]))
    out, i = [], 0
    while i < len(text):
        for s, t in vocab:
            if text.startswith(s, i):
                out.append(t)
                i += len(s)
                break
        else:
            out.append("?" + text[i:i + 12])
            break
    return out


def exc_name(exc):
    import lena.core
    if isinstance(exc, lena.core.LenaException):
        return type(exc).__name__
    if type(exc).__name__ in ("UndefinedError", "TemplateNotFound", "TimeoutExpired", "AttributeError"):
        return type(exc).__name__
    return "Other:" + type(exc).__name__


# --------------------------------------------------------------------------- tpl
def tk(t, s="", p=(), ln=False):
    return {"t": t, "s": s, "p": list(p), "ln": ln}


def tok_text(x):
    t, p = x["t"], ".".join(x["p"])
    if t == "lit":
        return TEXT[x["s"]]
    if t == "nl":
        return "\n"
    if t == "sp":
        return "    "
    if t == "var":
        return "\\VAR{ %s }" % p
    if t == "com":
        return "\\#{ a note }"
    if t == "lcom":
        return "%# a note"
    body = {"if": "if " + p, "else": "else", "endif": "endif", "for": "for item in " + p, "endfor": "endfor"}[t]
    return ("%- " + body) if x["ln"] else ("\\BLOCK{ " + body + " }")


def source_text(src):
    return "".join(tok_text(x) for x in src)


class TplRunner(object):
    """renders template sources through RenderLaTeX: with template_dir (lena's own environment) or with a custom
    environment built from the documented jinja_syntax_latex"""

    def __init__(self, workdir):
        import jinja2
        import lena.output
        self.jinja2 = jinja2
        self.dir = tempfile.mkdtemp(prefix="tpl_", dir=workdir)
        self.names = {}
        self.cur = None
        self.mapping = {}
        self.el_dir = lena.output.RenderLaTeX(select_template=lambda val: self.cur, template_dir=self.dir,
                                              select_data=lambda val: True)
        env = jinja2.Environment(loader=jinja2.DictLoader(self.mapping), **lena.output.jinja_syntax_latex)
        self.el_env = lena.output.RenderLaTeX(select_template=lambda val: self.cur, environment=env,
                                              select_data=lambda val: True)

    def name_of(self, text):
        name = self.names.get(text)
        if name is None:
            name = "t%05d.tex" % len(self.names)
            self.names[text] = name
            with open(os.path.join(self.dir, name), "w") as f:
                f.write(text)
            self.mapping[name] = text
        return name

    def render(self, text, context, custom_env=False):
        """-> ("ok", text, context after) | ("exc", name, None)"""
        self.cur = self.name_of(text)
        el = self.el_env if custom_env else self.el_dir
        try:
            out = list(el.run([(0, context)]))
        except Exception as exc:     # noqa
            return ("exc", exc_name(exc), None)
        if len(out) != 1 or not isinstance(out[0], tuple) or len(out[0]) != 2:
            return ("exc", "Other:yielded %r" % (out,), None)
        return ("ok", out[0][0], out[0][1])


def observe_tpl(runner, sc, custom_env=False):
    """-> (res, raw text, problems with the context)"""
    context = dec_value(sc["ctx"])
    before = copy.deepcopy(context)
    text = source_text(sc["src"])
    kind, val, after = runner.render(text, context, custom_env)
    if kind == "exc":
        return {"ok": False, "out": [], "exc": val}, None, []
    problems = []
    if not isinstance(val, str):
        return {"ok": True, "out": ["?%r" % (val,)], "exc": ""}, repr(val), []
    outc = after.get("output", {}) if isinstance(after, dict) else {}
    if not isinstance(after, dict) or outc.get("filetype") != "tex":
        problems.append("context.output.filetype is %r, not 'tex'" % (outc.get("filetype"),))
    else:
        rest = copy.deepcopy(after)
        rest["output"] = dict((k, v) for k, v in rest["output"].items() if k not in ("filetype", "fileext"))
        exp = copy.deepcopy(before)
        exp.setdefault("output", {})
        exp["output"] = dict((k, v) for k, v in exp["output"].items() if k not in ("filetype", "fileext"))
        if rest != exp:
            problems.append("context changed beyond output.filetype / fileext: %r -> %r" % (before, after))
    vocab = list(TEXT.items())
    vocab = [(s, t) for t, s in vocab] + [(leaf_token(v), leaf_token(v)) for v in leaves(before)]
    return {"ok": True, "out": tokenize(val, vocab), "exc": ""}, val, problems


def expected_text(out):
    return "".join(TEXT.get(t, t) for t in out)


def src_signature(src):
    kinds = []
    for x in src:
        k = x["t"] + ("-line" if x["ln"] else "")
        if k not in kinds:
            kinds.append(k)
    return "+".join(sorted(kinds))


PATHS_PLAIN = (("variable", "name"), ("variable", "unit"), ("nothing",), ("nothing", "more"), ("output", "filepath"),
               ("item", "output", "filepath"), ("variable", "nothing"))
PATHS_IF = (("variable", "unit"), ("variable",), ("nothing",), ("nothing", "more"), ("group",), ("variable", "name"))
PATHS_FOR = (("group",), ("nothing",), ("nothing", "more"))


def random_source(rnd, n):
    src, opened = [], []

    def line_start():
        k = len(src)
        while k > 0 and src[k - 1]["t"] == "sp":
            k -= 1
        return k == 0 or src[k - 1]["t"] == "nl"

    def tag(t, p=()):
        ln = line_start() and rnd.random() < 0.5
        src.append(tk(t, p=p, ln=ln))
        if ln:
            src.append(tk("nl"))

    while len(src) < n or opened:
        acts = []
        if len(src) < n:
            acts += ["plain"] * 6 + ["lcom"]
            if len(opened) < 3:
                acts += ["if", "if"]
                if "for" not in opened:
                    acts.append("for")
        if opened and opened[-1] == "if" and len(src) < n + 2:
            acts.append("else")
        if opened:
            acts += ["close"] * (2 if len(src) < n else 6)
        a = rnd.choice(acts)
        if a == "plain":
            k = rnd.randrange(8)
            src.append([tk("lit", "A"), tk("lit", "B"), tk("lit", "OLD"), tk("nl"), tk("nl"), tk("sp"), tk("com"),
                        tk("var", p=rnd.choice(PATHS_PLAIN))][k] if k < 7 else tk("var", p=rnd.choice(PATHS_PLAIN)))
        elif a == "lcom":
            src.extend([tk("lcom"), tk("nl")])
        elif a == "if":
            tag("if", rnd.choice(PATHS_IF))
            opened.append("if")
        elif a == "for":
            tag("for", rnd.choice(PATHS_FOR))
            opened.append("for")
        elif a == "else":
            tag("else")
            opened[-1] = "ifelse"
        else:
            tag("endfor" if opened[-1] == "for" else "endif")
            opened.pop()
    return src


def random_context(rnd):
    c = {"output": {"filepath": rnd.choice(["o/p.csv", "plots/h1.csv"])}}
    if rnd.random() < 0.8:
        c["variable"] = {"name": rnd.choice(["x", "E"])}
        if rnd.random() < 0.8:
            c["variable"]["unit"] = rnd.choice(["keV", "", 0, None, "m", False])
    if rnd.random() < 0.7:
        c["group"] = [{"output": {"filepath": "g%d.csv" % j}} for j in range(rnd.randrange(4))]
    if rnd.random() < 0.3:
        c["plot"] = {"title": rnd.choice(["T", "", 7])}
    return c


# --------------------------------------------------------------------------- sel
class SelWorld(object):
    def __init__(self, workdir):
        self.dirs = {}
        for have in (("T", "O"), ("T",), ("O",), ()):
            d = tempfile.mkdtemp(prefix="sel_", dir=workdir)
            for n in have:
                with open(os.path.join(d, n + ".tex"), "w") as f:
                    f.write(n + "\\VAR{ k }")
            self.dirs[frozenset(have)] = d


def sel_missing(sc):
    """the template that must not exist when sc.file is false"""
    if sc["st"] == "callable":
        return "T"
    if sc["ct"] != "none":
        return sc["ct"]
    return "T"


def observe_sel(world, sc):
    import jinja2
    import lena.output
    have = {"T", "O"}
    if not sc["file"]:
        have.discard(sel_missing(sc))
    tdir = world.dirs[frozenset(have)]
    kw = {}
    if sc["st"] == "str":
        kw["select_template"] = "T.tex"
    elif sc["st"] == "callable":
        kw["select_template"] = lambda val: "T.tex"
    elif sc["st"] == "bad":
        kw["select_template"] = 5
    if sc["sd"] == "callable":
        kw["select_data"] = lambda val: sc["pick"]
    elif sc["sd"] == "bad":
        kw["select_data"] = 5
    if sc["env"] in ("custom", "both"):
        kw["environment"] = jinja2.Environment(loader=jinja2.FileSystemLoader(tdir), **lena.output.jinja_syntax_latex)
    if sc["env"] in ("dir", "both"):
        kw["template_dir"] = tdir
    if sc["fd"]:
        kw["from_data"] = True
    kw["verbose"] = sc["vb"]

    def res(ok, exc="", sel=False, out=(), ftype="", printed=0):
        return {"ok": ok, "exc": exc, "sel": sel, "out": list(out), "ftype": ftype, "printed": printed}
    try:
        el = lena.output.RenderLaTeX(**kw)
    except Exception as exc:     # noqa
        return res(False, exc_name(exc)), []
    context = {"k": "cv"}
    outc = {}
    if sc["ft"] != "none":
        outc["filetype"] = sc["ft"]
    if sc["ct"] != "none":
        outc["template"] = sc["ct"] + ".tex"
    if outc:
        context["output"] = outc
    before = copy.deepcopy(context)
    val = ({"k": "dv"} if sc["fd"] else 7, context)
    buf = io.StringIO()
    try:
        with contextlib.redirect_stdout(buf):
            out = list(el.run([val]))
    except Exception as exc:     # noqa
        return res(False, exc_name(exc), sel=True), []
    printed = len(buf.getvalue().splitlines())
    problems = []
    if len(out) != 1:
        return res(True, sel=True, out=["?%d values" % len(out)], printed=printed), []
    if out[0] is val:
        if context != before:
            problems.append("a value that was not selected was changed")
        return res(True, sel=False, printed=printed), problems
    data, after = out[0]
    toks = tokenize(data if isinstance(data, str) else repr(data), [("T", "T"), ("O", "O"), ("cv", "cv"), ("dv", "dv")])
    ftype = after.get("output", {}).get("filetype", "") if isinstance(after, dict) else ""
    rest = copy.deepcopy(after)
    rest["output"] = dict((k, v) for k, v in rest.get("output", {}).items() if k not in ("filetype", "fileext"))
    exp = copy.deepcopy(before)
    exp["output"] = dict((k, v) for k, v in exp.get("output", {}).items() if k not in ("filetype", "fileext"))
    if rest != exp:
        problems.append("context changed beyond output.filetype / fileext")
    return res(True, sel=True, out=toks, ftype=ftype, printed=printed), problems


def random_sel(rnd):
    while True:
        sc = {"st": rnd.choice(["str", "empty", "callable", "bad"] + ["str", "empty", "callable"] * 3),
              "ct": rnd.choice(["none", "O"]), "file": rnd.random() < 0.8,
              "env": rnd.choice(["dir", "custom", "both", "dir", "custom"]),
              "sd": rnd.choice(["default", "callable", "bad", "default", "callable"]),
              "ft": rnd.choice(["csv", "txt", "none"]), "pick": rnd.random() < 0.5, "fd": rnd.random() < 0.5,
              "vb": rnd.randrange(3)}
        if sc["sd"] != "callable":
            sc["pick"] = False
        if not sc["file"] and sc["st"] == "callable" and sc["ct"] == "O":
            continue
        return sc


# --------------------------------------------------------------------------- table
SEP = {"C": ",", "AMP": " & "}
RS, RE, LRE, HDR, FTR = "<tr>", "\\\\", "!", "x,y", "end"


def t3(s, r=0, c=0):
    return {"s": s, "r": r, "c": c}


def table_cell_value(width, r, c):
    if width == 0:
        return 10 * r
    return 10 * r + c if c != 2 else "s%d" % r


def observe_table(sc):
    import lena.output
    rows, texts = [], {}
    for r, width in enumerate(sc["rows"], 1):
        if width == 0:
            rows.append(table_cell_value(0, r, 1))
            texts[repr(rows[-1])] = (r, 1)
        else:
            rows.append(tuple(table_cell_value(width, r, c) for c in range(1, width + 1)))
            for c in range(1, width + 1):
                v = rows[-1][c - 1]
                texts[("{:03d}".format(v) if c == 1 else "<%s>" % v) if sc["fmt"] else repr(v)] = (r, c)
    kw = {"row_separator": SEP[sc["sep"]]}
    if sc["fmt"]:
        kw["format_"] = ("{:03d}", "<{}>")
    if sc["hdr"] == "plain":
        kw["header"] = HDR
    elif sc["hdr"] == "fields":
        kw["header"] = "{}" + SEP[sc["sep"]] + "{}"
        kw["header_fields"] = ("p", "q")
    if sc["rs"]:
        kw["row_start"] = RS
    if sc["re"]:
        kw["row_end"] = RE
    if sc["ftr"]:
        kw["footer"] = FTR
    try:
        lines = list(lena.output.iterable_to_table(rows, **kw))
    except Exception as exc:     # noqa
        return {"ok": False, "out": [], "exc": exc_name(exc)}, None
    vocab = [(RS, t3("RS")), (RE, t3("RE")), (SEP[sc["sep"]], t3(sc["sep"])), (HDR, t3("HDR")), (FTR, t3("FTR")),
             ("p", t3("HF1")), ("q", t3("HF2"))] + [(s, t3("cell", r, c)) for s, (r, c) in texts.items()]
    out = []
    for ln in lines:
        toks = tokenize(ln, vocab) if isinstance(ln, str) else ["?%r" % (ln,)]
        out.append([t if isinstance(t, dict) else t3(t) for t in toks])
    return {"ok": True, "out": out, "exc": ""}, lines


def random_table(rnd):
    fmt = rnd.random() < 0.3
    n = rnd.randrange(7)
    return {"rows": [2 if fmt else rnd.choice([0, 1, 2, 2, 3, 4]) for _ in range(n)], "fmt": fmt,
            "hdr": rnd.choice(["none", "plain", "fields"]), "rs": rnd.random() < 0.5, "re": rnd.random() < 0.5,
            "sep": rnd.choice(["C", "AMP"]), "ftr": rnd.random() < 0.5}


# --------------------------------------------------------------------------- csv
class _Rows(object):
    def __init__(self, n):
        self._n = n

    def rows(self):
        return iter([(r, "v%d" % r) for r in range(1, self._n + 1)])


class _RowsCtx(_Rows):
    def _update_context(self, context):
        context["seen"] = True


def observe_csv(sc):
    import lena.output
    import lena.structures
    n, texts = sc["n"], {}
    if sc["obj"] == "graph":
        obj = lena.structures.graph([[r for r in range(1, n + 1)], [r + 0.5 for r in range(1, n + 1)]])
        for r in range(1, n + 1):
            texts[repr(r)] = (r, 1)
            texts[repr(r + 0.5)] = (r, 2)
    elif sc["obj"] in ("rows", "rowsctx"):
        obj = (_Rows if sc["obj"] == "rows" else _RowsCtx)(n)
        for r in range(1, n + 1):
            texts[repr(r)] = (r, 1)
            texts[repr("v%d" % r)] = (r, 2)
    else:
        obj = lena.structures.histogram(list(range(n + 1)), [10 + r for r in range(1, n + 1)])
        for r in range(1, n + 2):
            texts["%f" % (r - 1)] = (r, 1)
        for r in range(1, n + 1):
            texts["%f" % (10 + r)] = (r, 2)
    el = lena.output.ToCSV(separator=SEP[sc["sep"]], header=HDR if sc["hdr"] else None, row_end=RE if sc["re"] else "",
                           last_row_end=LRE if sc["lre"] else "", duplicate_last_bin=sc["dup"])
    val = (obj, {"k": 1}) if sc["pair"] else obj
    try:
        out = list(el.run([val]))
    except Exception as exc:     # noqa
        return {"ok": False, "text": [], "ftype": "", "upd": False, "keep": False, "exc": exc_name(exc)}, None
    if len(out) != 1 or not isinstance(out[0], tuple) or len(out[0]) != 2 or not isinstance(out[0][0], str):
        return {"ok": True, "text": [t3("?not converted")], "ftype": "", "upd": False, "keep": False}, repr(out)
    text, context = out[0]
    vocab = [(RE, t3("RE")), (LRE, t3("LRE")), (SEP[sc["sep"]], t3(sc["sep"])), (HDR, t3("HDR")), ("\n", t3("NL"))] + \
            [(s, t3("cell", r, c)) for s, (r, c) in texts.items()]
    toks = [t if isinstance(t, dict) else t3(t) for t in tokenize(text, vocab)]
    if sc["hdr"] and toks and toks[0]["s"] == "HDR":
        # not documented whether the header is ended like a row
        if len(toks) > 2 and toks[1]["s"] == "RE" and toks[2]["s"] == "NL" and sc["re"]:
            toks[1:3] = [t3("HEND")]
        elif len(toks) > 1 and toks[1]["s"] == "NL":
            toks[1:2] = [t3("HEND")]
    if sc["obj"] == "hist":
        upd = context.get("histogram", {}).get("dim") == 1
    else:
        upd = context.get("seen") is True
        if sc["obj"] == "rowsctx" and not upd and not hasattr(lena.structures.graph, "_update_context"):
            # this version of lena spells the (underscore) method of that protocol differently: whether ToCSV
            # lets an object update the context cannot be observed with this object - reduced coverage
            NOT_OBSERVABLE["_update_context"] = NOT_OBSERVABLE.get("_update_context", 0) + 1
            upd = True
    return {"ok": True, "text": toks, "ftype": context.get("output", {}).get("filetype", ""), "upd": upd,
            "keep": context.get("k") == 1}, text


def random_csv(rnd):
    obj = rnd.choice(["graph", "rows", "rowsctx", "hist"])
    return {"obj": obj, "n": rnd.randrange(1, 7), "sep": rnd.choice(["C", "AMP"]), "hdr": rnd.random() < 0.5,
            "re": rnd.random() < 0.5, "lre": rnd.random() < 0.5, "dup": obj == "hist" and rnd.random() < 0.5,
            "pair": rnd.random() < 0.5}


# --------------------------------------------------------------------------- cmd
STUB = """#!/bin/sh
{ printf '%%s' "$0"; for a in "$@"; do printf '\\t%%s' "$a"; done; printf '\\n'; } >> "%(log)s"
if [ -n "$X05_SLOW" ]; then echo $$ > "$X05_SLOW"; exec sleep 1.5; fi
exit 0
"""
EXTS = ("tex", "pdf", "png", "jpeg", "tiff")


class CmdWorld(object):
    def __init__(self, workdir):
        self.root = tempfile.mkdtemp(prefix="cmd_", dir=workdir)
        self.bin = os.path.join(self.root, "bin")
        os.makedirs(self.bin)
        self.log = os.path.join(self.root, "argv.log")
        self.pidfile = os.path.join(self.root, "slow.pid")
        for name in ("pdflatex", "pdftoppm"):
            p = os.path.join(self.bin, name)
            with open(p, "w") as f:
                f.write(STUB % {"log": self.log})
            os.chmod(p, os.stat(p).st_mode | stat.S_IXUSR | stat.S_IXGRP | stat.S_IXOTH)
        self.files = os.path.join(self.root, "files")
        os.makedirs(self.files)

    @contextlib.contextmanager
    def path(self, slow=False):
        old = os.environ.get("PATH", "")
        os.environ["PATH"] = self.bin + os.pathsep + old
        if slow:
            os.environ["X05_SLOW"] = self.pidfile
        try:
            yield
        finally:
            os.environ["PATH"] = old
            os.environ.pop("X05_SLOW", None)

    def calls(self):
        if not os.path.exists(self.log):
            return []
        with open(self.log) as f:
            lines = [ln.rstrip("\n").split("\t") for ln in f if ln.strip()]
        os.remove(self.log)
        return lines


def word(s):
    return {"s": s, "dirs": [], "stem": "", "ext": ""}


def render_arg(tok, root):
    if tok["s"] == "path":
        name = tok["stem"] + ("." + tok["ext"] if tok["ext"] else "")
        return os.path.join(*([root] if root else []) + list(tok["dirs"]) + [name])
    if tok["s"] == "dir":
        parts = ([root] if root else []) + list(tok["dirs"])
        return os.path.join(*parts) if parts else ""
    return tok["s"]


def parse_arg(s, root, stems):
    """a string of a command line -> token (word, dir or path)"""
    rel = s
    if root:
        if s == root:
            return {"s": "dir", "dirs": [], "stem": "", "ext": ""}
        if s.startswith(root + os.sep):
            rel = s[len(root) + 1:]
        elif os.sep in s:
            return word("?" + s)
    if rel in ("", "."):
        return {"s": "dir", "dirs": [], "stem": "", "ext": ""}
    comps = rel.split(os.sep)
    last = comps[-1]
    stem, ext = last, ""
    for e in EXTS:
        if last.endswith("." + e):
            stem, ext = last[:-len(e) - 1], e
            break
    if ext or stem in stems:
        return {"s": "path", "dirs": comps[:-1], "stem": stem, "ext": ext}
    if os.sep in rel or rel != s or "." in rel and not rel.startswith("-"):
        return {"s": "dir", "dirs": comps, "stem": "", "ext": ""}
    return word(s)


WORDS = {"pdflatex", "pdftoppm", "-halt-on-error", "-interaction", "errorstopmode", "-output-directory", "CUSTOM",
         "-singlefile", "-png", "-jpeg", "-tiff", "stub"}
DIRWORDS = {"out", "plots", "figs"}


def observe_cmd(world, sc, stems):
    import lena.output
    root = world.files if sc["abs"] else ""
    inp = render_arg({"s": "path", "dirs": sc["dirs"], "stem": sc["stem"],
                      "ext": "tex" if sc["conv"] == "latex" else "pdf"}, root)
    context = {"output": {"filetype": "tex" if sc["conv"] == "latex" else "pdf"}, "k": 1}
    seen = []

    def create_command(*args):
        seen.append(args)
        return [os.path.join(world.bin, "pdflatex"), "CUSTOM", args[0], args[1]] if len(args) >= 2 else ["false"]

    def tok(s):
        if s in WORDS:
            return word(s)
        if not root and s in DIRWORDS:
            return {"s": "dir", "dirs": [s], "stem": "", "ext": ""}
        return parse_arg(s, root, stems)

    def res(ok, exc="", argv=(), ccargs=(), out=None, ftype="", printed=False):
        return {"ok": ok, "exc": exc, "argv": list(argv), "ccargs": list(ccargs), "out": out or word(""), "ftype": ftype,
                "printed": printed}
    world.calls()
    if sc["conv"] == "latex":
        el = lena.output.LaTeXToPDF(verbose=1 if sc["vb"] else 0, create_command=create_command if sc["cc"] else None)
    else:
        el = lena.output.PDFToPNG(format=sc["fmt"], verbose=bool(sc["vb"]), timeoutsec=0.3 if sc["slow"] else 60)
    buf = io.StringIO()
    t0 = time.time()
    raw = {}
    try:
        with world.path(slow=sc["slow"]), contextlib.redirect_stdout(buf):
            out = list(el.run([(inp, context)]))
    except Exception as exc:     # noqa
        raw["elapsed"] = round(time.time() - t0, 2)
        r = res(False, exc_name(exc))
        if sc["slow"]:
            time.sleep(0.05)
            alive = False
            try:
                with open(world.pidfile) as f:
                    pid = int(f.read().strip())
                os.kill(pid, 0)
                with open("/proc/%d/stat" % pid) as f:
                    alive = f.read().split(")")[-1].split()[0] != "Z"
            except (OSError, ValueError):
                alive = False
            raw["child_alive_after_timeout"] = alive
            if alive:
                r["exc"] = "TimeoutExpired-but-child-still-running"
        world.calls()
        return r, raw
    raw["elapsed"] = round(time.time() - t0, 2)
    raw["stdout"] = buf.getvalue()
    calls = world.calls()
    raw["calls"] = calls
    raw["yielded"] = repr(out)
    if len(out) != 1 or len(calls) != 1:
        return res(True, argv=[word("?%d values, %d processes" % (len(out), len(calls)))]), raw
    data, after = out[0]
    argv = calls[0]
    stub_path = os.path.join(world.bin, "pdflatex")
    first = "stub" if (sc["cc"] and argv[0] == stub_path) else os.path.basename(argv[0])
    toks = [word(first)] + [tok(a) for a in argv[1:]]
    ccargs = []
    if seen:
        a = seen[0]
        ccargs = [tok(x) if isinstance(x, str) else word("?%r" % (x,)) for x in a[:3]]
        ccargs.append(word("CONTEXT" if len(a) > 3 and a[3] is context else "?not the context"))
    # verbose: the command line as launched is printed; not verbose: nothing is
    line = " ".join(([stub_path] if sc["cc"] else [os.path.basename(argv[0])]) + argv[1:])
    printed = (line in buf.getvalue()) if sc["vb"] else bool(buf.getvalue().strip())
    return res(True, argv=toks, ccargs=ccargs, out=tok(data) if isinstance(data, str) else word("?%r" % (data,)),
               ftype=after.get("output", {}).get("filetype", ""), printed=printed), raw


def random_cmd(rnd):
    conv = rnd.choice(["latex", "png"])
    dirs = [rnd.choice(["out", "a.tex.d", "b.pdf.d", "plots", "v2.texts"]) for _ in range(rnd.randrange(4))]
    return {"conv": conv, "dirs": dirs, "stem": rnd.choice(["plot", "my.texfile", "v1.pdfs", "hist_x"]),
            "abs": rnd.random() < 0.5, "cc": conv == "latex" and rnd.random() < 0.5,
            "fmt": rnd.choice(["png", "jpeg", "tiff"]) if conv == "png" else "png", "vb": rnd.random() < 0.5, "slow": False}


STEMS = ("plot", "my.texfile", "v1.pdfs", "hist_x")


# --------------------------------------------------------------------------- repr
JSON_TEXT = {"1": "1", "QS": '"s"', "true": "true", "null": "null", "2": "2", "QT": '"t w"'}
JSON_VALUE = {"1": 1, "QS": "s", "true": True, "null": None, "2": 2, "QT": "t w"}


def build_doc(es):
    """entries in pre-order -> nested dict with keys inserted in REVERSE order (the representation sorts them)"""
    root = {}
    stack = [root]           # containers of levels 0 .. d-1
    pending = []
    for e in es:
        del stack[e["d"]:]
        parent = stack[-1]
        kind = e["kind"]
        if kind in ("L", "I"):
            v = JSON_VALUE[e["v"]]
        elif kind in ("D", "E"):
            v = {}
        else:
            v = []
        if isinstance(parent, list):
            parent.append(v)
        else:
            parent[e["key"]] = v
        if kind in ("D", "S"):
            stack.append(v)

    def rev(x):
        if isinstance(x, dict):
            return dict((k, rev(x[k])) for k in reversed(list(x)))
        if isinstance(x, list):
            return [rev(v) for v in x]
        return x
    del pending
    return rev(root)


LINE_RE = re.compile(r'^( *)(?:"([^"]*)": )?(.*?)(,?)$')


def observe_repr(sc, nested_context=False):
    import lena.context
    d = build_doc(sc["es"])
    if nested_context:
        d = dict((k, lena.context.Context(v) if isinstance(v, dict) else v) for k, v in d.items())
    try:
        text = repr(lena.context.Context(d))
    except Exception as exc:     # noqa
        return {"ok": False, "out": [], "exc": exc_name(exc)}, None
    back = dict((v, k) for k, v in JSON_TEXT.items())
    out = []
    for ln in text.split("\n"):
        m = LINE_RE.match(ln)
        ind, key, val, comma = m.groups()
        out.append({"ind": len(ind) // 4 if len(ind) % 4 == 0 else -1, "key": key or "", "val": back.get(val, val),
                    "comma": comma == ","})
    return {"ok": True, "out": out, "exc": ""}, text


def random_doc(rnd, n):
    es = []

    def fill(d, budget):
        keys = sorted(rnd.sample(["a", "b", "c", "k1", "k2", "z"], rnd.randrange(1, 5)))
        for key in keys:
            if budget[0] <= 0:
                break
            budget[0] -= 1
            kind = rnd.choice(["L", "L", "L", "E", "F", "D", "S"]) if d < 4 else rnd.choice(["L", "E", "F"])
            if kind == "L":
                es.append({"d": d, "key": key, "kind": "L", "v": rnd.choice(list(JSON_TEXT))})
            elif kind in ("E", "F"):
                es.append({"d": d, "key": key, "kind": kind, "v": ""})
            elif kind == "D":
                es.append({"d": d, "key": key, "kind": "D", "v": ""})
                before = len(es)
                fill(d + 1, budget)
                if len(es) == before:
                    es[-1]["kind"] = "E"
            else:
                es.append({"d": d, "key": key, "kind": "S", "v": ""})
                for _ in range(rnd.randrange(1, 4)):
                    es.append({"d": d + 1, "key": "", "kind": "I", "v": rnd.choice(list(JSON_TEXT))})
    fill(1, [n])
    return es


# --------------------------------------------------------------------------- ctxop
def observe_ctxop(sc):
    import lena.context
    import lena.core
    C = lena.context.Context
    op = sc["op"]

    def res(ok, r="", exc=""):
        return {"ok": ok, "r": r, "exc": exc}

    def pairlike(out, data, d):
        return (isinstance(out, tuple) and len(out) == 2 and out[0] == data and type(out[1]) is C and dict(out[1]) == d)
    try:
        c = C({"a": {"b": 1}, "n": 2})
        if op == "get_present":
            return res(True, "value" if c.a == {"b": 1} and c.n == 2 else "?%r" % (c.a,))
        if op == "get_missing":
            return res(True, "?%r" % (c.zzz,))
        if op == "get_private":
            return res(True, "?%r" % (c._zzz,))
        if op == "set_public":
            c.x = 3
            return res(True, "item-set" if c["x"] == 3 and "x" not in c.__dict__ else "?not an item")
        if op == "set_private":
            c._x = 3
            return res(True, "?accepted")
        if op == "call_pair":
            out = C()((1, {"a": 1}))
            return res(True, "data-with-Context-of-its-context" if pairlike(out, 1, {"a": 1}) else "?%r" % (out,))
        if op == "call_ctxpair":
            out = C({"zz": 1})((1, C({"a": 1})))
            return res(True, "data-with-Context-of-its-context" if pairlike(out, 1, {"a": 1}) else "?%r" % (out,))
        if op == "as_element":
            out = list(lena.core.Sequence(C()).run([(1, {"a": 1})]))
            return res(True, "data-with-Context-of-its-context" if len(out) == 1 and pairlike(out[0], 1, {"a": 1})
                       else "?%r" % (out,))
        if op in ("call_bare_int", "call_bare_str"):
            v = 5 if op == "call_bare_int" else "ab"
            out = C()(v)
            return res(True, "value-with-empty-Context" if pairlike(out, v, {}) else "?%r" % (out,))
        if op in ("deepcopy", "pickle"):
            c2 = copy.deepcopy(c) if op == "deepcopy" else pickle.loads(pickle.dumps(c))
            good = type(c2) is C and c2 == c and repr(c2) == repr(c) and c2 is not c and c2["a"] is not c["a"]
            return res(True, "equal-Context-same-representation" if good else "?%r" % (c2,))
        if op == "bad_formatter":
            C(formatter="")
            return res(True, "?accepted")
        if op == "bad_create_command":
            import lena.output
            lena.output.LaTeXToPDF(create_command=5)
            return res(True, "?accepted")
        if op == "custom_formatter":
            c3 = C({"a": 1}, formatter=lambda d: "F%d" % len(d))
            return res(True, "formatter-output" if repr(c3) == "F1" and str(c3) == "F1" else "?%r" % (repr(c3),))
    except Exception as exc:     # noqa
        return res(False, "", exc_name(exc))
    return res(True, "?unknown op")
