"""Harness elements and builders for X01 (spec/SeqStruct.tla).

An element *kind* of the specification stands for a capability set; here each kind is a small class
having exactly those methods / attributes.  Every object carries a tag so that results can be
compared by identity and reported readably.
"""
import warnings

LOG = []       # (tag of the element asked, id of the argument, returned object) for alter_sequence calls


class El(object):
    """kind "none": no capability at all"""

    def __init__(self, tag="?"):
        self.tag = tag

    def __repr__(self):
        return "<%s %s>" % (type(self).__name__, self.tag)


class CallEl(El):
    """a function of one value; called without arguments it is a source of one value"""

    def __call__(self, *args):
        return args[0] if args else iter((self.tag,))


class RunEl(El):
    def run(self, flow):
        for v in flow:
            yield v


class RunBEl(RunEl):
    _can_break_flow = True


class FCEl(El):
    def fill(self, value):
        pass

    def compute(self):
        yield self.tag


class FCREl(FCEl):
    def run(self, flow):
        for v in flow:
            yield v


class FREl(El):
    def fill(self, value):
        pass

    def request(self):
        yield self.tag

    def reset(self):
        pass


class FIEl(El):
    def fill_into(self, element, value):
        element.fill(value)


class FillEl(El):
    def fill(self, value):
        pass


class IterEl(El):
    def __iter__(self):
        return iter([1, 2])


class NoDataEl(El):
    _has_no_data = True


class UniEl(El):
    def __call__(self, *args):
        return args[0] if args else iter((self.tag,))

    def run(self, flow):
        for v in flow:
            yield v

    def fill(self, value):
        pass

    def compute(self):
        yield self.tag

    def request(self):
        yield self.tag

    def reset(self):
        pass


class SameEl(CallEl):
    """its alter_sequence returns the sequence it is given"""

    def alter_sequence(self, seq):
        LOG.append((self, seq, seq))
        return seq


class CutEl(CallEl):
    """its alter_sequence returns a new Sequence of the elements from itself to the end (like Cache)"""

    def alter_sequence(self, seq):
        import lena.core
        if seq is self:
            new = lena.core.Sequence(self)
        else:
            els = list(seq)
            ind = [j for j, e in enumerate(els) if e is self][0]
            new = lena.core.Sequence(*els[ind:])
        LOG.append((self, seq, new))
        return new


KINDS = {"call": CallEl, "run": RunEl, "runb": RunBEl, "fc": FCEl, "fcr": FCREl, "fr": FREl, "fi": FIEl,
         "fill": FillEl, "iter": IterEl, "none": El, "nodata": NoDataEl, "uni": UniEl,
         "same": SameEl, "cut": CutEl}
FRS_KW = {"ok": {"reset": False, "buffer_input": True},
          "noreset": {"buffer_input": True},
          "nobuf": {"reset": False},
          "unknown": {"reset": False, "buffer_input": True, "nope": 1}}


def make(kind, tag):
    return KINDS[kind](tag)


def seq_class(core, kind):
    return getattr(core, kind)


def construct(core, kind, objs, kw="ok", single=False):
    """call the constructor of a sequence class the way the scenario says"""
    cls = seq_class(core, kind)
    args = (tuple(objs),) if single else tuple(objs)
    kwargs = dict(FRS_KW[kw]) if kind == "FillRequestSeq" else {}
    with warnings.catch_warnings():
        warnings.simplefilter("ignore")
        return cls(*args, **kwargs)


def build_tree(core, tree, path=()):
    """real object for a tree of the specification; returns (object, {path: leaf object})"""
    leaves = {}

    def rec(x, p):
        if x["t"] == "el":
            o = make(x["k"], ".".join(str(j) for j in p) or "root")
            leaves[p] = o
            return o
        children = [rec(c, p + (j + 1,)) for j, c in enumerate(x["c"])]
        if x["t"] == "tuple":
            return tuple(children)
        with warnings.catch_warnings():
            warnings.simplefilter("ignore")
            return seq_class(core, x["t"])(*children)
    return rec(tree, tuple(path)), leaves


def leaf_elements(core, obj, acc=None):
    """all non-sequence objects reachable by iterating LenaSequences / tuples / lists"""
    if acc is None:
        acc = []
    if isinstance(obj, (core.LenaSequence, tuple, list)):
        for e in obj:
            leaf_elements(core, e, acc)
    else:
        acc.append(obj)
    return acc


def universal(core, kind, n):
    """a valid element list of length n for the sequence kind (None if impossible)"""
    if kind == "Sequence":
        return [CallEl("e%d" % j) for j in range(n)]
    if n == 0:
        return None
    calls = [CallEl("e%d" % j) for j in range(1, n)]
    if kind == "Source":
        return [CallEl("e0")] + calls
    if kind == "FillSeq":
        return calls + [FillEl("e%d" % n)]
    if kind == "FillComputeSeq":
        return [FCEl("e0")] + calls
    if kind == "FillRequestSeq":
        return [FREl("e0")] + calls
    return None
