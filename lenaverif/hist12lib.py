"""Harness helpers for C12: histogram / graph arithmetic, scaling and conversions.

Spec side (spec/HistOpsSem.tla): numbers that are multiplied are exact rationals [num, den] ([0, 0] = None);
here they become Python ints / floats, and observed floats are compared within a relative 1e-9
("up to rounding") or snapped back to small rationals for the trace spec.
"""
import copy
import warnings
from fractions import Fraction

from .histlib import LIMIT, flat, watchdog
from .util import exc_name

NONE = -1000
RTOL = 1e-9
ATOL = 1e-12


# --------------------------------------------------------------------------- numbers
def fr(p):
    return None if p[1] == 0 else Fraction(p[0], p[1])


def num(x, floats=False):
    """A rational of the spec as the Python number given to lena."""
    if x is None:
        return None
    if x.denominator == 1 and not floats:
        return int(x)
    return float(x)


def close(x, want, unit=1.0):
    """x equals the spec value up to rounding (unit = magnitude of the data, for values near zero)."""
    if want is None or x is None:
        return x is None and want is None
    if isinstance(x, bool) or not isinstance(x, (int, float)):
        return False
    w = float(want)
    return abs(x - w) <= max(ATOL * unit, RTOL * abs(w))


def nested(b, depth, f):
    if depth == 0:
        return f(b)
    return [nested(x, depth - 1, f) for x in b]


def close_nested(got, want, depth, unit=1.0):
    if depth == 0:
        return close(got, want, unit)
    return (isinstance(got, list) and len(got) == len(want)
            and all(close_nested(g, w, depth - 1, unit) for g, w in zip(got, want)))


def to_rat(x, maxden=2000, big=20000):
    """Snap an observed number to a small rational [n, d]; None when it is not within 1e-9 of one
    or too large for TLC's 32-bit arithmetic."""
    if x is None:
        return [0, 0]
    if isinstance(x, bool) or not isinstance(x, (int, float)):
        return None
    f = Fraction(x).limit_denominator(maxden)
    if abs(float(f) - x) > max(ATOL, RTOL * abs(x)):
        return None
    if abs(f.numerator) > big or f.denominator > big:
        return None
    return [f.numerator, f.denominator]


class Skip(Exception):
    """A recorded value cannot be encoded for the trace spec (record dropped, deterministic)."""


def rat_or_skip(x):
    r = to_rat(x)
    if r is None:
        raise Skip()
    return r


# --------------------------------------------------------------------------- building objects
def make_hist(S, h, floats=False, tuples=False, emul=1, cmul=1):
    """histogram from a spec record [edges, bins, oor(, cache)]; contents from rationals.
    emul / cmul: magnitudes (powers of two) applied to the edges / the contents."""
    dim = len(h["edges"])
    conv = (lambda e: e * emul) if emul != 1 else ((lambda e: float(e)) if floats else (lambda e: e))
    edges = [[conv(x) for x in e] for e in h["edges"]]
    if tuples:
        edges = tuple(tuple(e) for e in edges)
    arg = edges[0] if dim == 1 else edges
    cc = (lambda p: float(fr(p)) * cmul) if cmul != 1 else (lambda p: num(fr(p), floats))
    bins = nested(h["bins"], dim, cc)
    hist = S.histogram(arg, bins=bins)
    hist.n_out_of_range = cc(h["oor"])
    return hist, copy.deepcopy(arg)


def make_hist_int(S, h, floats=False, tuples=False, emul=1, cmul=1):
    """histogram from a Convert.tla record [edges, bins] with plain integer contents."""
    dim = len(h["edges"])
    ce = (lambda x: x * emul) if emul != 1 else (float if floats else (lambda x: x))
    cc = (lambda x: x * cmul) if cmul != 1 else (float if floats else (lambda x: x))
    edges = [[ce(x) for x in e] for e in h["edges"]]
    if tuples:
        edges = tuple(tuple(e) for e in edges)
    arg = edges[0] if dim == 1 else edges
    bins = nested(h["bins"], dim, cc)
    return S.histogram(arg, bins=bins), copy.deepcopy(arg)


NAME_SETS = [("x", "y", "z"), ("E", "time", "N_ev"), ("a", "ab", "abc"), ("x_1", "y_1", "z_1"), ("abc", "ab", "a")]


def field_names(g, names, as_string=False):
    coords = list(names[:g["dim"]])
    errs = ["error_" + coords[e["c"] - 1] + ("_" + e["t"] if e["t"] else "") for e in g["errs"]]
    fn = tuple(coords + errs)
    return ", ".join(fn) if as_string else fn


def graph_columns(g, floats=False):
    """The column lists of a spec graph; columns with the same g["rep"] are ONE list object."""
    cols = [[num(fr(p), floats) for p in col] for col in g["cols"]]
    rep = g.get("rep") or list(range(1, len(cols) + 1))
    return [cols[rep[k] - 1] for k in range(len(cols))]


def make_graph(S, g, names, floats=False, as_string=False, cols=None):
    if cols is None:
        cols = graph_columns(g, floats)
    return S.graph(list(cols), field_names=field_names(g, names, as_string), scale=num(fr(g["scale"]), floats))


def _is_ref(val):
    return isinstance(val, tuple) and isinstance(val[1], dict) and val[1].get("ref") is True


def do_scale(obj, s, variant, S, F, allow=False):
    """Rescale through one of the public routes that end in structure.scale(number).
    allow: only the group routes, with allow_zero_scale = allow_unknown_scale = True."""
    if allow:
        if variant % 2:
            F.scale_to(s, [obj], allow_zero_scale=True, allow_unknown_scale=True)
        else:
            F.GroupScale(s, allow_zero_scale=True, allow_unknown_scale=True)([(obj, {"variant": "allow"})])
        return
    v = variant % 7
    if v in (5, 6):
        # "Otherwise it is converted to a Selector, which must return a unique item from the group.
        # Group items will be scaled to the scale of that item."
        ref = S.graph([[0, 1], [1, 2]], scale=s)
        group = [(obj, {"variant": v}), (ref, {"ref": True})]
        if v == 5:
            F.scale_to(_is_ref, group)
        else:
            F.GroupScale(_is_ref)(group)
        if ref.coords != [[0, 1], [1, 2]] or ref.scale() != s:
            raise AssertionError("the item that provides the scale was changed: %r" % (ref,))
        return
    if v == 0:
        obj.scale(s)
    elif v == 1:
        S.ScaleTo(s)(obj)
    elif v == 2:
        S.ScaleTo(s)((obj, {"variant": 2}))
    elif v == 3:
        F.scale_to(s, [obj])
    else:
        F.GroupScale(s)([(obj, {"variant": 4})])


# --------------------------------------------------------------------------- S2C: histogram operations
# magnitudes (exponents of two) for the edges and the contents of a replayed histogram history;
# E ** dim * C must stay finite in 3 dimensions
HIST_MAGS = [(0, 0), (0, 0), (-300, 0), (300, -100), (-30, 40), (100, 100), (0, -200), (-100, 300)]
# magnitudes of the edges in add-with-tolerance scenarios: 1e-298 ... 1e298
TOL_MAGS = [0, -30, 30, -100, 100, -300, 300, -990, 990]


CONV_MAGS = [(0, 0), (0, 0), (-30, 20), (60, -40), (300, 300), (-300, -300), (-990, 0), (0, 990)]


def mag_class(e):
    return "unit" if e == 0 else ("tiny" if e < 0 else "huge")


def replay_addtol(S, start, op, k, report, extra, mags):
    """hist.add(other, w[, edges_abs_tol, edges_rel_tol]) where other has the edges of hist but for one edge,
    at every magnitude of the edges (the decision is relative, abs_tol is scaled along)."""
    gedges = start["edges"]
    dim = len(gedges)
    pert, tol = op["pert"], op["tol"]
    w = op["w"]
    for mi, e in enumerate(mags):
        for per_axis in ((False, True) if dim > 1 else (False,)):
            # the same magnitude on every axis, or another one on the axes that are not perturbed
            exps = [e] * dim
            if per_axis:
                paxis = pert["axis"] - 1 if pert["kind"] != "none" else 0
                exps = [e if d == paxis else mags[(mi + 3 + d) % len(mags)] for d in range(dim)]
            muls = [2.0 ** x for x in exps]
            mine = [[x * muls[d] for x in gedges[d]] for d in range(dim)]
            theirs = copy.deepcopy(mine)
            pm = muls[0]
            if pert["kind"] != "none":
                d, pos = pert["axis"] - 1, pert["pos"] - 1
                pm = muls[d]
                x = gedges[d][pos]
                amt = fr(pert["amt"])
                if pert["kind"] == "grid":
                    y = (x + float(amt)) * pm
                else:
                    eps = float(fr(tol["rel"])) if tol["kind"] != "default" else 1e-9
                    y = x * pm * (1 - float(amt) * eps)
                theirs[d][pos] = y
            unwrap = (lambda es: es[0]) if dim == 1 else (lambda es: es)
            hist = S.histogram(unwrap(copy.deepcopy(mine)), bins=nested(start["bins"], dim, lambda p: num(fr(p))))
            try:
                other = S.histogram(unwrap(copy.deepcopy(theirs)), bins=nested(op["b"]["bins"], dim, lambda p: num(fr(p))))
            except Exception:   # noqa  (the perturbed edges are increasing by construction)
                continue
            other.n_out_of_range = num(fr(op["b"]["oor"]))
            snap = copy.deepcopy((hist.bins, hist.edges, hist.n_out_of_range, other.bins, other.edges, other.n_out_of_range))
            raised = None
            res = None
            try:
                with watchdog(LIMIT):
                    if tol["kind"] == "default":
                        res = hist.add(other, w)
                    else:
                        at = float(fr(tol["abs"])) * pm
                        rt = float(fr(tol["rel"]))
                        style = (k + mi) % 3
                        if style == 0:
                            res = hist.add(other, w, edges_abs_tol=at, edges_rel_tol=rt)
                        elif style == 1:
                            res = hist.add(other, w, at, rt)
                        elif tol["kind"] == "rel":
                            res = hist.add(other, weight=w, edges_rel_tol=rt)       # abs_tol keeps its default 0.0
                        else:
                            res = hist.add(other, edges_rel_tol=rt, edges_abs_tol=at, weight=w)
            except Exception as exc:   # noqa
                raised = exc_name(exc)
            key = "histogram.add:tolerance=%s:edge-%s:dim=%d:%s" % (tol["kind"], pert["kind"], dim, mag_class(e))
            detail = {"edges": repr(mine), "other_edges": repr(theirs), "tolerance": tol, "perturbation": pert,
                      "magnitude_exponents": exps, "expected_ok": op["ok"], "raised": raised, "result": repr(res)}
            if copy.deepcopy((hist.bins, hist.edges, hist.n_out_of_range, other.bins, other.edges,
                              other.n_out_of_range)) != snap:
                report(key + ":operand-modified", detail)
                return
            if op["ok"]:
                r = op["r"]
                if raised:
                    report(key + ":equal-edges-rejected:" + raised, detail)
                elif not (isinstance(res, S.histogram) and res.edges == hist.edges
                          and close_nested(res.bins, nested(r["bins"], dim, fr), dim)
                          and close(res.n_out_of_range, fr(r["oor"]))):
                    report(key + ":result", detail)
            elif raised is None:
                report(key + ":different-edges-accepted", detail)
            else:
                d2 = extra.setdefault("add_unequal_edges_exceptions", {})
                d2[raised] = d2.get(raised, 0) + 1


def _try(call):
    try:
        return True, call()
    except Exception as exc:   # noqa
        return False, exc_name(exc)


def snapshot_hist(h):
    return copy.deepcopy((h.bins, h.n_out_of_range, h.edges))


def _lists(b, acc):
    if isinstance(b, list):
        acc.add(id(b))
        for x in b:
            _lists(x, acc)
    return acc


def shares(b1, b2):
    """two nested lists have a list object in common"""
    return bool(_lists(b1, set()) & _lists(b2, set()))


def flat_rats(b, depth):
    if depth == 0:
        return [b]
    out = []
    for x in b:
        out.extend(flat_rats(x, depth - 1))
    return out


def replay_histops(ctx, rec, k, report, extra):
    import lena.structures as S
    import lena.flow as F
    dim = len(rec["start"]["edges"])
    if rec["ops"] and rec["ops"][0]["op"] == "add_tol" and len(rec["ops"]) == 1:
        replay_addtol(S, rec["start"], rec["ops"][0], k, report, extra, TOL_MAGS)
        return
    floats = (k % 3 == 1)
    tuples = (k % 4 == 3)
    em, cm = HIST_MAGS[(k // 3) % len(HIST_MAGS)]
    E, C = (2.0 ** em if em else 1), (2.0 ** cm if cm else 1)
    I = (E ** dim) * C                       # magnitude of the integral
    hist, edges0 = make_hist(S, rec["start"], floats, tuples, E, C)
    where = "dim=%d" % dim
    if em or cm:
        where += ":edges-%s:contents-%s" % (mag_class(em), mag_class(cm))

    def sval(p, f=False):
        """a scale of the spec at the magnitude of this histogram"""
        return num(fr(p), f) if I == 1 else float(fr(p)) * I

    def cval(p, f=False):
        return num(fr(p), f) if C == 1 else float(fr(p)) * C

    def exp(p, mul):
        x = fr(p)
        return x if (x is None or mul == 1) else float(x) * mul
    def all_dyadic(h):
        return all(p[1] & (p[1] - 1) == 0 for p in flat_rats(h["bins"], dim))
    # exact_vals: every content so far is a dyadic number, i.e. the floats of the code are the rationals of the model
    exact_vals = all_dyadic(rec["start"])
    held = []
    for j, op in enumerate(rec["ops"]):
        name = op["op"]
        want = op["a"]
        detail = {"start": rec["start"], "ops": rec["ops"][:j + 1], "floats": floats, "tuple_edges": tuples,
                  "magnitude_exponents": [em, cm]}
        try:
            with watchdog(LIMIT):
                if name == "getscale":
                    got = hist.scale(recompute=True) if op["rc"] else hist.scale()
                    if not close(got, exp(op["val"], I), I):
                        report("histogram.scale():value:%s%s" % (where, ":recompute" if op["rc"] else ""),
                               dict(detail, observed=repr(got)))
                elif name == "scale":
                    raised = None
                    allow = op.get("kind") == "allow"
                    if allow and not exact_vals:
                        return            # an exact zero of the model, contents with rounding errors: undecidable
                    try:
                        do_scale(hist, sval(op["s"], floats and (k % 2 == 0)), k + j, S, F, allow)
                    except Exception as exc:   # noqa
                        raised = exc_name(exc)
                    if op["ok"] and raised:
                        report("histogram.scale:%s:raised:%s" % (where, raised), detail)
                        return
                    if not op["ok"] and raised is None and not exact_vals:
                        # the integral is an exact zero in the model, but the contents of the code carry rounding
                        # errors of earlier operations: whether the sum cancels exactly cannot be demanded
                        return
                    if not op["ok"] and raised != op["exc"]:
                        report("histogram.scale:zero-scale:%s:%s" % (where, raised or "no-exception"), detail)
                        if raised is None:
                            return
                elif name == "set_nevents" and not op["ok"]:
                    # "Rescaling a histogram with zero entries raises a LenaValueError"
                    if not exact_vals:
                        return
                    ok, val = _try(lambda: hist.set_nevents(cval(op["s"]), include_out_of_range=op["incl"]))
                    if ok or val != op["exc"]:
                        report("histogram.set_nevents:zero-events:%s:%s" % (where, "no-exception" if ok else val), detail)
                        if ok:
                            return
                elif name == "to_graph_scale":
                    mode = op["kind"]
                    arg = True if mode == "true" else (None if mode == "none" else sval(op["val"]))
                    fn = ("x", "y", "z", "t")[:dim + 1]
                    gr = S.hist_to_graph(hist, scale=arg, field_names=fn if (k + j) % 2 else ", ".join(fn))
                    wantv = exp(op["val"], I)
                    if not isinstance(gr, S.graph) or not close(gr.scale(), wantv, I) \
                            or not close_nested(list(gr.coords[dim]), [exp(p, C) for p in flat_rats(want["bins"], dim)], 1, C):
                        report("hist_to_graph:scale=%s:%s" % (mode, where), dict(detail, observed=repr(gr)))
                elif name == "set_nevents":
                    nev = cval(op["s"], floats and (k % 2 == 0))
                    if op["incl"] or (k + j) % 2:
                        hist.set_nevents(nev, include_out_of_range=op["incl"])
                    else:
                        hist.set_nevents(nev)
                    got = hist.get_nevents(include_out_of_range=op["incl"]) if op["incl"] else hist.get_nevents()
                    if not close(got, exp(op["val"], C), C):
                        report("histogram.set_nevents:get_nevents:%s:incl=%s" % (where, op["incl"]),
                               dict(detail, observed=repr(got)))
                elif name == "add":
                    other, oedges0 = make_hist(S, op["b"], floats, tuples, E, C)
                    snap = (copy.deepcopy(hist.bins), hist.n_out_of_range, copy.deepcopy(other.bins), other.n_out_of_range)
                    raised = None
                    res = None
                    try:
                        res = hist.add(other) if (op["w"] == 1 and (k + j) % 2) else hist.add(other, op["w"])
                    except Exception as exc:   # noqa
                        raised = exc_name(exc)
                    if (hist.bins, hist.n_out_of_range, other.bins, other.n_out_of_range) != snap \
                            or other.edges != oedges0 or hist.edges != edges0:
                        report("histogram.add:operand-modified:%s:%s" % (where, op["kind"]), detail)
                        return
                    if op["ok"]:
                        if raised:
                            report("histogram.add:%s:%s:raised:%s" % (where, op["kind"], raised), detail)
                            return
                        r = op["r"]
                        odim = len(r["edges"])
                        ok = (isinstance(res, S.histogram) and res is not hist and res is not other
                              and res.edges == edges0
                              and close_nested(res.bins, nested(r["bins"], odim, lambda p: exp(p, C)), odim, C)
                              and close(res.n_out_of_range, exp(r["oor"], C), C))
                        if not ok:
                            report("histogram.add:result:%s:%s:w=%d" % (where, op["kind"], op["w"]),
                                   dict(detail, observed=repr(res), oor=repr(getattr(res, "n_out_of_range", None))))
                        elif shares(res.bins, hist.bins) or shares(res.bins, other.bins) \
                                or (isinstance(res.edges, list) and res.edges is hist.edges):
                            report("histogram.add:result-shares-lists-with-operand:%s" % where, detail)
                        elif op.get("into"):
                            # go on with the sum (a new histogram); the operands are kept and must stay as they are
                            held = [(hist, snapshot_hist(hist)), (other, snapshot_hist(other))]
                            hist = res
                    else:
                        if raised is None:
                            report("histogram.add:different-edges-accepted:%s:%s" % (where, op["kind"]),
                                   dict(detail, observed=repr(res)))
                        else:
                            d = extra.setdefault("add_unequal_edges_exceptions", {})
                            d[raised] = d.get(raised, 0) + 1
                elif name == "add_tol":
                    # inside a generated history: at the magnitude of this history only
                    replay_addtol(S, want, op, k, report, extra, [em])
        except Exception as exc:   # noqa
            report("histogram.%s:%s:raised:%s" % (name, where, exc_name(exc)), dict(detail, exception=repr(exc)))
            return
        exact_vals = exact_vals and all_dyadic(want)
        for obj, snap in held:
            if snapshot_hist(obj) != snap:
                report("histogram.%s:changes-an-operand-of-the-earlier-add:%s" % (name, where), detail)
                return
        # the histogram after the operation
        if hist.edges != edges0:
            report("histogram.%s:edges-changed:%s" % (name, where), dict(detail, observed=repr(hist.edges)))
            return
        if not close_nested(hist.bins, nested(want["bins"], dim, lambda p: exp(p, C)), dim, C):
            report("histogram.%s:bins:%s" % (name, where), dict(detail, observed=repr(hist.bins)))
            return
        if not close(hist.n_out_of_range, exp(want["oor"], C), C):
            report("histogram.%s:n_out_of_range:%s" % (name, where), dict(detail, observed=repr(hist.n_out_of_range)))
            return
        # the stored scale (what scale() would return without computing), peeked at without changing it
        if name == "add_tol":
            pass
        elif hasattr(hist, "_scale"):
            if not close(hist._scale, exp(want["cache"], I), I):
                report("histogram.%s:stored-scale:%s%s" % (name, where, ":sum" if op.get("into") else ""),
                       dict(detail, observed=repr(hist._scale)))
                # (no return: the public scale() / scale(s) of the following steps are compared as well)
        else:
            extra["stored_scale_not_observable"] = True
    last = rec["ops"][-1]
    if last["op"] == "scale" and last["ok"] and last["exc"] == "" and last["fresh"]:
        # "makes the recomputed scale equal s"
        got = hist.scale(recompute=True)
        got2 = hist.scale()
        if not close(got, exp(last["s"], I), I) or not close(got2, exp(last["s"], I), I):
            report("histogram.scale:recomputed:%s" % where, {"start": rec["start"], "ops": rec["ops"], "observed": repr(got)})


# --------------------------------------------------------------------------- S2C: graph
def replay_graph(ctx, rec, k, report):
    import lena.structures as S
    import lena.flow as F
    g0 = rec["start"]
    names = NAME_SETS[k % len(NAME_SETS)]
    floats = (k % 3 == 2)
    where = "dim=%d:nerr=%d" % (g0["dim"], len(g0["errs"]))
    shared = sorted(set(r for j, r in enumerate(g0.get("rep") or [], 1) if r != j))
    if shared:
        where += ":one-list-given-for-two-columns"
    try:
        cols = graph_columns(g0, floats)
        # a second graph made from the same column objects, before anything is rescaled
        twin = make_graph(S, g0, names, floats, cols=cols) if "rep" in g0 else None
        g = make_graph(S, g0, names, floats, as_string=(k % 5 == 1), cols=cols)
    except Exception as exc:   # noqa
        report("graph:construct:%s:raised:%s" % (where, exc_name(exc)), {"start": g0, "names": names, "exception": repr(exc)})
        return
    twin0 = copy.deepcopy(twin.coords) if twin is not None else None
    given0 = copy.deepcopy(cols)
    fn0 = g.field_names
    for j, op in enumerate(rec["ops"]):
        detail = {"start": g0, "ops": rec["ops"][:j + 1], "names": names, "field_names": repr(fn0)}
        before = copy.deepcopy(g.coords)
        try:
            with watchdog(LIMIT):
                if op["op"] == "getscale":
                    got = g.scale()
                    if not close(got, fr(op["val"])):
                        report("graph.scale():value:%s" % where, dict(detail, observed=repr(got)))
                else:
                    raised = None
                    try:
                        do_scale(g, num(fr(op["s"]), floats), k + j, S, F, op.get("exc") == "skipped")
                    except Exception as exc:   # noqa
                        raised = exc_name(exc)
                    if op["ok"] and raised:
                        report("graph.scale:%s:raised:%s" % (where, raised), detail)
                        return
                    if not op["ok"] and raised != op["exc"]:
                        sc = fr(g0["scale"]) if j == 0 else "later"
                        report("graph.scale:%s-scale:%s:%s" % ("unknown" if sc is None else "zero", where,
                                                               raised or "no-exception"), detail)
                        if raised is None:
                            return
        except Exception as exc:   # noqa
            report("graph.%s:%s:raised:%s" % (op["op"], where, exc_name(exc)), dict(detail, exception=repr(exc)))
            return
        want = op["g"]
        scaled = set([want["dim"]] + [want["dim"] + i + 1 for i, e in enumerate(want["errs"]) if e["c"] == want["dim"]])
        if twin is not None and [list(c) for c in twin.coords] != twin0:
            report("graph.%s:changed-another-graph-made-from-the-same-lists:%s" % (op["op"], where),
                   dict(detail, twin_before=repr(twin0), twin_after=repr(twin.coords)))
            return
        if twin is not None and op["op"] == "getscale" and cols != given0:
            report("graph.scale():changed-the-lists-it-was-given:%s" % where, dict(detail, observed=repr(cols)))
            return
        if len(g.coords) != len(want["cols"]) or g.field_names != fn0:
            report("graph.scale:structure-changed:%s" % where, dict(detail, observed=repr(g)))
            return
        for c in range(len(want["cols"])):
            col = g.coords[c]
            wcol = [fr(p) for p in want["cols"][c]]
            if (c + 1) not in scaled or not op["ok"] or op["exc"] == "skipped" or op["op"] == "getscale":
                if list(col) != list(before[c]):
                    kind = "coordinate" if c < want["dim"] else "error-of-other-coordinate"
                    if (c + 1) in scaled:
                        kind = "changed-without-rescale"
                    report("graph.scale:touched-%s:%s" % (kind, where), dict(detail, column=c, observed=repr(g.coords)))
                    return
            if len(col) != len(wcol) or not all(close(x, w) for x, w in zip(col, wcol)):
                kind = "last-coordinate" if c + 1 == want["dim"] else ("its-error" if (c + 1) in scaled else "other")
                report("graph.scale:%s:%s" % (kind, where), dict(detail, column=c, observed=repr(g.coords)))
                return
        if not close(g.scale(), fr(want["scale"])):
            report("graph.scale:new-scale:%s" % where, dict(detail, observed=repr(g.scale())))
            return


# --------------------------------------------------------------------------- S2C: conversions
def norm_edges(e):
    return [[x for x in pair] for pair in e]


def parse_csv(lines, sep):
    rows = []
    for line in lines:
        rows.append([float(x) for x in line.split(sep)])
    return rows


def rows_close(rows, want):
    return (len(rows) == len(want) and
            all(len(r) == len(w) and all(abs(a - b) <= 5.0e-7 + 1e-9 * abs(b) for a, b in zip(r, w))
                for r, w in zip(rows, want)))


def csv_lines(O, hist, dup, variant, sep, header=None):
    """CSV text of a histogram through the functions or the ToCSV element; returns the data lines."""
    dim = hist.dim
    v = variant % 4
    if v == 0:
        f = O.hist1d_to_csv if dim == 1 else O.hist2d_to_csv
        lines = list(f(hist, header=header, separator=sep, duplicate_last_bin=dup))
    else:
        if v == 1:
            el = O.ToCSV(separator=sep, header=header, duplicate_last_bin=dup)
            val = hist
        elif v == 2:
            # context takes precedence over the element's setting
            el = O.ToCSV(separator=sep, header=header, duplicate_last_bin=not dup)
            val = (hist, {"output": {"duplicate_last_bin": dup}})
        else:
            el = O.ToCSV(separator=sep, header=header, duplicate_last_bin=dup)
            val = (hist, {"some": "context"})
        out = list(el.run([val]))
        if len(out) != 1 or not isinstance(out[0], tuple) or not isinstance(out[0][0], str):
            raise ValueError("ToCSV did not yield one (text, context) pair: %r" % (out,))
        lines = out[0][0].split("\n")
    if header:
        if not lines or lines[0] != header:
            raise ValueError("header missing: %r" % (lines[:1],))
        lines = lines[1:]
    return lines


def replay_convert(ctx, rec, k, report):
    """One conversion of Convert.tla on the real code, with list edges and with tuple edges."""
    for tuples in (False, True):
        try:
            _replay_convert(ctx, rec, k, report, tuples)
        except Exception as exc:   # noqa  (an exception that no expected-exception clause of the replay foresaw)
            report("convert:%s:unexpected-exception:%s" % (rec["conv"]["op"], exc_name(exc)),
                   {"hist": rec["hist"], "conv": dict((x, rec["conv"].get(x)) for x in ("op", "mode", "dup", "ranges", "elem")),
                    "tuple_edges": tuples, "exception": repr(exc)[:300]})


def _replay_convert(ctx, rec, k, report, tuples):
    import lena.structures as S
    import lena.output as O
    h, conv = rec["hist"], rec["conv"]
    dim = len(h["edges"])
    floats = (k % 3 == 1)
    # magnitudes (powers of two, exact) of the edges and of the contents
    em, cm = CONV_MAGS[(k // 2) % len(CONV_MAGS)]
    E, C = (2.0 ** em if em else 1), (2.0 ** cm if cm else 1)
    hist, edges0 = make_hist_int(S, h, floats, tuples, E, C)
    bins0 = copy.deepcopy(hist.bins)
    op = conv["op"]
    where = "dim=%d%s" % (dim, ":tuple-edges" if tuples else "")
    if em or cm:
        where += ":edges-%s:contents-%s" % (mag_class(em), mag_class(cm))
    detail = {"hist": h, "conv": dict((x, conv.get(x)) for x in ("op", "mode", "dup", "ranges", "names", "both", "elem")), "floats": floats,
              "tuple_edges": tuples, "magnitude_exponents": [em, cm]}
    if em or cm:
        # the expected output at this magnitude: coordinates * E, contents * C
        conv = dict(conv)
        conv["cols"] = [[x * (E if c < dim else C) for x in col] for c, col in enumerate(conv["cols"])]
        conv["cells"] = [dict(c, v=c["v"] * C, e=[[a * E, b * E] for a, b in c["e"]]) for c in conv["cells"]]
        conv["rows"] = [[x * E for x in r[:-1]] + [r[-1] * C] for r in conv["rows"]]
    try:
        with watchdog(LIMIT):
            if op == "to_graph":
                fn = ("x", "y", "z", "t")[:dim + 1]
                if conv.get("names") == "string":
                    fn = ", ".join(fn) if k % 2 else " ".join(fn)
                if not conv["ok"]:
                    # "Incorrect values for ... get_coordinate raise ... LenaValueError"
                    for what, call in (("hist_to_graph", lambda: S.hist_to_graph(hist, get_coordinate=conv["mode"], field_names=fn)),
                                       ("HistToGraph", lambda: S.HistToGraph(get_coordinate=conv["mode"], field_names=fn))):
                        ok, val = _try(call)
                        if ok or val != conv["exc"]:
                            report("%s:bad-get_coordinate:%s" % (what, "no-exception" if ok else val), dict(detail, observed=repr(val)))
                else:
                    if k % 2:
                        g = S.hist_to_graph(hist, get_coordinate=conv["mode"], field_names=fn)
                    else:
                        out = list(S.HistToGraph(get_coordinate=conv["mode"], field_names=fn).run([hist]))
                        g = out[0][0] if len(out) == 1 and isinstance(out[0], tuple) else None
                    cols = getattr(g, "coords", None)
                    if not isinstance(g, S.graph) or [list(c) for c in cols] != conv["cols"] \
                            or g.field_names != ("x", "y", "z", "t")[:dim + 1]:
                        report("hist_to_graph:%s:%s" % (conv["mode"], where), dict(detail, observed=repr(g)))
            elif op == "iter_bins":
                got = [[list(i), v] for i, v in S.iter_bins(hist.bins)]
                want = [[c["idx"], c["v"]] for c in conv["cells"]]
                if got != want:
                    report("iter_bins:%s" % where, dict(detail, observed=repr(got)))
            elif op == "iter_bins_with_edges":
                got = [[v, norm_edges(e)] for v, e in S.iter_bins_with_edges(hist.bins, hist.edges)]
                want = [[c["v"], c["e"]] for c in conv["cells"]]
                if got != want:
                    report("iter_bins_with_edges:%s" % where, dict(detail, observed=repr(got)[:600]))
            elif op == "iter_cells":
                rng = tuple((None if lo == NONE else lo, None if up == NONE else up) for lo, up in conv["ranges"])
                allnone = all(lo is None and up is None for lo, up in rng)
                raised = None
                got = None
                try:
                    if conv.get("both"):
                        lo, hi = (hist.edges[0], hist.edges[-1]) if dim == 1 else (hist.edges[0][0], hist.edges[0][-1])
                        it = S.iter_cells(hist, ranges=rng, coord_ranges=((lo, hi),) * dim)
                    else:
                        it = S.iter_cells(hist) if (allnone and k % 2) else S.iter_cells(hist, ranges=rng)
                    got = [[norm_edges(c.edges), c.bin, list(c.index)] for c in it]
                except Exception as exc:   # noqa
                    raised = exc_name(exc)
                if conv["ok"]:
                    want = [[c["e"], c["v"], c["idx"]] for c in conv["cells"]]
                    if raised or got != want:
                        report("iter_cells:%s:%s" % (where, raised or "cells"), dict(detail, observed=repr(got)[:600]))
                elif raised != conv["exc"]:
                    report("iter_cells:bad-range:%s:%s" % (where, raised or "no-exception"), detail)
            elif op == "csv":
                elem = conv.get("elem", "plain")
                sep = [",", ";", " "][k % 3]
                header = None if k % 5 else "a header"
                if elem in ("skip", "3d"):
                    # "If context.output.to_csv is False, the value is skipped"; more than 2 dimensions: not converted
                    val = (hist, {"output": {"to_csv": False}}) if elem == "skip" else (hist if k % 2 else (hist, {"some": 1}))
                    try:
                        with warnings.catch_warnings():
                            warnings.simplefilter("ignore")
                            out = list(O.ToCSV(separator=sep, duplicate_last_bin=conv["dup"]).run([val]))
                    except Exception as exc:   # noqa
                        out = ["raised " + exc_name(exc)]
                    if len(out) != 1 or out[0] is not val:
                        report("to_csv:%s:not-passed-unchanged:%s" % (elem, where), dict(detail, observed=repr(out)[:300]))
                elif elem == "ends":
                    re_, lre = " \\\\", " %end"
                    out = list(O.ToCSV(separator=sep, row_end=re_, last_row_end=lre, duplicate_last_bin=conv["dup"]).run([hist]))
                    text = out[0][0] if len(out) == 1 and isinstance(out[0], tuple) else ""
                    lines = text.split("\n")
                    ends_ok = len(lines) == len(conv["ends"]) and all(
                        line.endswith(re_ if e == "E" else lre) and not line[:-len(re_ if e == "E" else lre)].endswith((re_, lre))
                        for line, e in zip(lines, conv["ends"]))
                    stripped = [line[:-len(re_ if e == "E" else lre)] for line, e in zip(lines, conv["ends"])] if ends_ok else []
                    if not ends_ok or not rows_close(parse_csv(stripped, sep), conv["rows"]):
                        report("to_csv:row_end:%s:dup=%s" % (where, conv["dup"]), dict(detail, observed=lines[:40]))
                else:
                    lines = csv_lines(O, hist, conv["dup"], k, sep, header)
                    rows = parse_csv(lines, sep)
                    if not rows_close(rows, conv["rows"]):
                        report("to_csv:%s:dup=%s" % (where, conv["dup"]), dict(detail, observed=lines[:40]))
    except Exception as exc:   # noqa
        report("%s:%s:raised:%s" % ("hist_to_graph" if op == "to_graph" else op, where, exc_name(exc)),
               dict(detail, exception=repr(exc)))
        return
    if hist.bins != bins0 or hist.edges != edges0:
        report("%s:histogram-modified:%s" % (op, where), detail)


# --------------------------------------------------------------------------- S2C: flows through one element object
FLOW_MAGS = [(0, 0), (0, 0), (0, 0), (-30, 20), (300, 300), (-300, 0)]
_OPT = {"T": True, "F": False}


def _flow_value(S, kind, h, v, i, floats, tuples, E, C, bare):
    """The i-th value of a flow of ConvFlow.tla: a fresh histogram with the options of its own context."""
    hist, _ = make_hist_int(S, h, floats, tuples, E, C)
    context = {"tag": i}
    if v["dup"] != "absent":
        context.setdefault("output", {})["duplicate_last_bin"] = _OPT[v["dup"]]
    if v["conv"] != "absent":
        if kind == "ToCSV":
            context.setdefault("output", {})["to_csv"] = _OPT[v["conv"]]
        else:
            context.setdefault("histogram", {})["to_graph"] = _OPT[v["conv"]]
    if bare and v["dup"] == "absent" and v["conv"] == "absent":
        return hist, hist          # a value without context
    return hist, (hist, context)


def _flow_ok(S, kind, want, got, val, hist, sep, header, E, C, target):
    """Does what the element yielded for one value equal the output the model gives for that value?"""
    dim = hist.dim
    if want["kind"] == "pass":
        return got is val
    if want["kind"] == "raise":
        return got == "raised " + want["exc"]
    if not isinstance(got, tuple) or len(got) != 2:
        return False
    if want["kind"] == "rows":
        if not isinstance(got[0], str):
            return False
        lines = got[0].split("\n")
        if header:
            if not lines or lines[0] != header:
                return False
            lines = lines[1:]
        try:
            rows = parse_csv(lines, sep)
        except ValueError:
            return False
        return rows_close(rows, [[x * E for x in r[:-1]] + [r[-1] * C] for r in want["rows"]])
    if want["kind"] == "cols":
        g = got[0]
        if not isinstance(g, S.graph):
            return False
        cols = [[x * (E if c < dim else C) for x in col] for c, col in enumerate(want["cols"])]
        return [list(c) for c in g.coords] == cols
    if want["kind"] == "scaled":
        return (got[0] is hist and close_nested(hist.bins, nested(want["bins"], dim, fr), dim)
                and close(hist.scale(), target))
    return False


def replay_flow(ctx, rec, k, report):
    """One behaviour of ConvFlow.tla: ONE element object, the values of the flow each with the options of its own
    context, fed in the run() calls of the record; the output for every value is the one the model gives."""
    import lena.structures as S
    import lena.output as O
    elem, pool, flow, outs = rec["elem"], rec["pool"], rec["flow"], rec["out"]
    kind = elem["kind"]
    floats, tuples, bare = (k % 3 == 1), (k % 4 == 2), (k % 2 == 1)
    em, cm = (0, 0) if kind == "ScaleTo" else FLOW_MAGS[(k // 3) % len(FLOW_MAGS)]
    E, C = (2.0 ** em if em else 1), (2.0 ** cm if cm else 1)
    sep = [",", ";", " "][k % 3]
    header = None if k % 5 else "a header"
    fn = ("x", "y", "z", "t")[:len(pool[0]["edges"]) + 1]

    def make_element():
        if kind == "ToCSV":
            return O.ToCSV(separator=sep, header=header, duplicate_last_bin=elem["dup"])
        if kind == "HistToGraph":
            return S.HistToGraph(get_coordinate=elem["mode"], field_names=fn)
        return S.ScaleTo(elem["s"])

    def feed(el, vals):
        """what the element yields for these values (one run())"""
        if kind == "ScaleTo":
            got = []
            for val in vals:
                try:
                    got.append(el(val))
                except Exception as exc:   # noqa
                    got.append("raised " + exc_name(exc))
            return got
        with warnings.catch_warnings():
            warnings.simplefilter("ignore")
            return list(el.run(iter(vals)))

    def value(i):
        v = flow[i]
        return _flow_value(S, kind, pool[v["hi"] - 1], v, i, floats, tuples, E, C, bare)

    name = {"ToCSV": "to_csv", "HistToGraph": "HistToGraph", "ScaleTo": "ScaleTo"}[kind]
    detail = {"element": elem, "flow": [dict(v, hist=pool[v["hi"] - 1]) for v in flow],
              "expected_kinds": [o["kind"] for o in outs], "floats": floats, "tuple_edges": tuples,
              "magnitude_exponents": [em, cm]}
    try:
        with watchdog(LIMIT):
            el = make_element()
            vals = [value(i) for i in range(len(flow))]
            before = [copy.deepcopy(h.bins) for h, _ in vals]
            got = []
            for r in sorted(set(v["run"] for v in flow)):
                seg = [vals[i][1] for i in range(len(flow)) if flow[i]["run"] == r]
                part = feed(el, seg)
                if len(part) != len(seg):
                    report("%s:flow:%d-outputs-for-%d-values" % (name, len(part), len(seg)), dict(detail, run=r))
                    return
                got.extend(part)
            for i, want in enumerate(outs):
                hist, val = vals[i]
                v = flow[i]
                if _flow_ok(S, kind, want, got[i], val, hist, sep, header, E, C, elem["s"]):
                    continue
                # the same value alone through a new element object: is it the conversion or the company?
                h1, v1 = value(i)
                alone = feed(make_element(), [v1])
                alone_ok = len(alone) == 1 and _flow_ok(S, kind, want, alone[0], v1, h1, sep, header, E, C, elem["s"])
                where = "dim=%d:own-%s:element-%s" % (
                    hist.dim,
                    ("dup=%s" % v["dup"]) if kind == "ToCSV" else ("convert=%s" % v["conv"]),
                    elem["dup"] if kind == "ToCSV" else (elem["mode"] or elem["s"]))
                what = "output-depends-on-other-values-of-the-flow" if alone_ok else "output"
                if alone_ok and len(set(x["run"] for x in flow[:i + 1])) > 1 and all(
                        x["run"] != v["run"] for x in flow[:i]):
                    what = "output-depends-on-an-earlier-run"
                report("%s:flow:%s:%s" % (name, what, where),
                       dict(detail, value=i, expected=want, observed=repr(got[i])[:400]))
                return
            if kind != "ScaleTo":
                for i, (h, _) in enumerate(vals):
                    if h.bins != before[i]:
                        report("%s:flow:histogram-modified:dim=%d" % (name, h.dim), dict(detail, value=i))
                        return
    except Exception as exc:   # noqa
        report("%s:flow:raised:%s" % (name, exc_name(exc)), dict(detail, exception=repr(exc)[:300]))


# --------------------------------------------------------------------------- C2S: recorded operations
def _rand_edges(rnd, n, ed):
    x = rnd.randint(-6, 6)
    out = [x]
    for _ in range(n):
        x += rnd.randint(1, 4)
        out.append(x)
    return out          # integers; the real edge is value / ed


def _hist_record(hist, dim, eint, ed):
    return {"edges": eint, "ed": ed,
            "bins": nested(hist.bins, dim, rat_or_skip), "oor": rat_or_skip(hist.n_out_of_range),
            "cache": rat_or_skip(hist._scale) if hasattr(hist, "_scale") else [0, 0]}


def record_histops(rnd, n, report):
    """Random operations on real histograms with float contents; rational-encoded records (k = "hist")."""
    import lena.structures as S
    out = []
    for _ in range(n):
        dim = rnd.choice([1, 1, 2, 3])
        ed = rnd.choice([1, 1, 2, 4])
        shape = [rnd.randint(1, 3 if dim < 3 else 2) for _ in range(dim)]
        eint = [_rand_edges(rnd, m, ed) for m in shape]
        real = [[x / float(ed) if (ed != 1 or rnd.random() < 0.5) else x for x in e] for e in eint]
        arg = real[0] if dim == 1 else real
        cden = rnd.choice([1, 2, 4])

        def content():
            k = rnd.randint(-6, 8)
            return k if cden == 1 else k / float(cden)
        bins = nested(_zeros(shape), dim, lambda _: content())
        hist = S.histogram(arg, bins=bins)
        hist.n_out_of_range = rnd.choice([0, 0, 1, 2.5, -1])
        nops = rnd.randint(1, 3)
        for _j in range(nops):
            op = rnd.choice(["getscale", "scale", "scale", "set_nevents", "add", "add"])
            try:
                before = _hist_record(hist, dim, eint, ed)
                r = {"k": "hist", "op": op, "h": before, "s": [0, 0], "incl": False, "rc": False, "w": 0,
                     "b": {"edges": [], "bins": [], "oor": [0, 0], "cache": [0, 0]}, "ok": True, "exc": "",
                     "val": [0, 0], "r": {"edges": [], "bins": [], "oor": [0, 0], "cache": [0, 0]}}
                s = Fraction(rnd.choice([1, 2, 3, 5, -1, -3]), rnd.choice([1, 1, 2, 4]))
                sv = int(s) if s.denominator == 1 and rnd.random() < 0.5 else float(s)
                with watchdog(LIMIT):
                    if op == "getscale":
                        r["rc"] = rnd.random() < 0.5
                        r["val"] = rat_or_skip(hist.scale(recompute=True) if r["rc"] else hist.scale())
                    elif op == "scale":
                        r["s"] = [s.numerator, s.denominator]
                        try:
                            hist.scale(sv)
                        except Exception as exc:   # noqa
                            r["ok"], r["exc"] = False, exc_name(exc)
                    elif op == "set_nevents":
                        r["incl"] = rnd.random() < 0.5
                        nev = hist.get_nevents(include_out_of_range=r["incl"])
                        if nev == 0:
                            continue
                        r["s"] = [s.numerator, s.denominator]
                        hist.set_nevents(sv, include_out_of_range=r["incl"])
                        r["val"] = rat_or_skip(hist.get_nevents(include_out_of_range=r["incl"]))
                    else:
                        r["w"] = rnd.choice([1, 1, 2, -1, 3])
                        same = rnd.random() < 0.6
                        if same:
                            oeint = eint
                        else:
                            oeint = [list(e) for e in eint]
                            ax = rnd.randrange(dim)
                            how = rnd.choice(["longer", "shorter", "moved"])
                            if how == "longer" or len(oeint[ax]) == 2 and how == "shorter":
                                oeint[ax] = oeint[ax] + [oeint[ax][-1] + 1]
                            elif how == "shorter":
                                oeint[ax] = oeint[ax][:-1]
                            else:
                                oeint[ax] = oeint[ax][:-1] + [oeint[ax][-1] + 1]
                        oreal = [[x / float(ed) for x in e] for e in oeint]
                        oshape = [len(e) - 1 for e in oeint]
                        other = S.histogram(oreal[0] if dim == 1 else oreal, bins=nested(_zeros(oshape), dim, lambda _: content()))
                        other.n_out_of_range = rnd.choice([0, 1, -2])
                        r["b"] = _hist_record(other, dim, oeint, ed)
                        snap = copy.deepcopy((other.bins, other.n_out_of_range, other.edges))
                        try:
                            res = hist.add(other, r["w"])
                        except Exception as exc:   # noqa
                            r["ok"], r["exc"] = False, exc_name(exc)
                        else:
                            if not isinstance(res, S.histogram) or res.edges != hist.edges:
                                report("random:histogram.add:result-edges", {"record": r, "observed": repr(res)})
                                break
                            r["r"] = _hist_record(res, dim, eint, ed)
                        if (other.bins, other.n_out_of_range, other.edges) != snap:
                            report("random:histogram.add:operand-modified", {"record": r})
                            break
                if real != ([list(hist.edges)] if dim == 1 else [list(e) for e in hist.edges]):
                    report("random:histogram.%s:edges-changed" % op, {"record": r, "observed": repr(hist.edges)})
                    break
                r["a"] = _hist_record(hist, dim, eint, ed)
                out.append(r)
            except Skip:
                break
            except Exception as exc:   # noqa
                report("random:histogram.%s:raised:%s" % (op, exc_name(exc)), {"exception": repr(exc)})
                break
    return out


def _zeros(shape):
    if len(shape) == 1:
        return [0] * shape[0]
    return [_zeros(shape[1:]) for _ in range(shape[0])]


def record_graphs(rnd, n, report):
    import lena.structures as S
    out = []
    for _ in range(n):
        dim = rnd.randint(1, 3)
        names = rnd.choice(NAME_SETS)
        cands = [{"c": c, "t": t} for c in range(1, dim + 1) for t in ("", "low", "high", "low_90")]
        errs = rnd.sample(cands, rnd.randint(0, 3))
        npts = rnd.randint(1, 5)
        den = rnd.choice([1, 2, 4])
        cols = [[(rnd.randint(-9, 9) if den == 1 else rnd.randint(-9, 9) / float(den)) for _ in range(npts)]
                for _ in range(dim + len(errs))]
        sc = rnd.choice([None, 0, 0.0, 1, 2, 0.5, -1.5, 3, 4])
        s = Fraction(rnd.choice([1, 2, 3, 5, -1, -3]), rnd.choice([1, 1, 2, 4]))
        g = {"dim": dim, "errs": errs}
        try:
            gr = S.graph(copy.deepcopy(cols), field_names=field_names(g, names), scale=sc)
            r = {"k": "graph", "g": {"dim": dim, "errs": errs, "cols": [[rat_or_skip(x) for x in c] for c in cols],
                                     "scale": rat_or_skip(sc)},
                 "s": [s.numerator, s.denominator], "ok": True, "exc": "", "names": list(names)}
            try:
                with watchdog(LIMIT):
                    gr.scale(float(s) if rnd.random() < 0.5 or s.denominator != 1 else int(s))
            except Exception as exc:   # noqa
                r["ok"], r["exc"] = False, exc_name(exc)
            r["g2"] = {"dim": dim, "errs": errs, "cols": [[rat_or_skip(x) for x in c] for c in gr.coords],
                       "scale": rat_or_skip(gr.scale())}
            out.append(r)
        except Skip:
            continue
        except Exception as exc:   # noqa
            report("random:graph.scale:raised:%s" % exc_name(exc), {"exception": repr(exc), "names": names, "errs": errs})
    return out


def record_conversions(rnd, n, report):
    """Conversions of real histograms with float edges (multiples of 1/4, logged * 8) and arbitrary float
    contents (logged as the rank of the content: the conversions only move values)."""
    import lena.structures as S
    import lena.output as O
    out = []
    for _ in range(n):
        dim = rnd.choice([1, 1, 2, 2, 3])
        shape = [rnd.randint(1, 5 if dim < 3 else 3) for _ in range(dim)]
        eint = []
        for m in shape:
            x = rnd.randint(-40, 40)
            e = [x]
            for _ in range(m):
                x += rnd.randint(1, 9)
                e.append(x)
            eint.append(e)
        real = [[x / 4.0 for x in e] for e in eint]
        ncell = 1
        for m in shape:
            ncell *= m
        vals = []
        while len(vals) < ncell:
            v = rnd.choice([rnd.uniform(-1000, 1000), rnd.randint(-50, 50), rnd.uniform(-1, 1), 1.0 / rnd.randint(1, 97)])
            if all(abs(v - u) > 1e-3 for u in vals):
                vals.append(v)
        ids = dict((v, i) for i, v in enumerate(sorted(vals)))
        it = iter(vals)
        bins = nested(_zeros(shape), dim, lambda _: next(it))
        hist = S.histogram(real[0] if dim == 1 else real, bins=copy.deepcopy(bins))
        hrec = {"edges": [[2 * x for x in e] for e in eint], "bins": nested(bins, dim, lambda v: ids[v])}
        op = rnd.choice(["to_graph", "iter_bins", "iter_bins_with_edges", "iter_cells", "csv", "csv"])
        if op == "csv" and dim > 2:
            op = "iter_cells"
        r = {"k": "conv", "hist": hrec, "op": op, "mode": "", "dup": False, "ranges": [], "ok": True, "exc": "",
             "cols": [], "cells": [], "rows": []}

        def e8(x):
            y = x * 8
            if y != int(y):
                raise Skip()
            return int(y)

        def vid(v, tol=0.0):
            if v in ids:
                return ids[v]
            best = min(ids, key=lambda u: abs(u - v))
            if abs(best - v) <= tol:
                return ids[best]
            raise KeyError(v)
        try:
            with watchdog(LIMIT):
                if op == "to_graph":
                    r["mode"] = rnd.choice(["left", "right", "middle"])
                    g = S.hist_to_graph(hist, get_coordinate=r["mode"], field_names=("x", "y", "z", "t")[:dim + 1])
                    r["cols"] = [[e8(x) for x in c] for c in g.coords[:dim]] + [[vid(v) for v in g.coords[dim]]]
                elif op == "iter_bins":
                    r["cells"] = [{"idx": list(i), "v": vid(v), "e": []} for i, v in S.iter_bins(hist.bins)]
                elif op == "iter_bins_with_edges":
                    r["cells"] = [{"idx": [], "v": vid(v), "e": [[e8(a), e8(b)] for a, b in e]}
                                  for v, e in S.iter_bins_with_edges(hist.bins, hist.edges)]
                elif op == "iter_cells":
                    rng = []
                    for m in shape:
                        lo = rnd.choice([None, None, 0, 1, rnd.randint(0, m), -1 if rnd.random() < 0.1 else 0])
                        up = rnd.choice([None, None, m, rnd.randint(0, m), m + 1 if rnd.random() < 0.15 else m])
                        rng.append((lo, up))
                    r["ranges"] = [[NONE if lo is None else lo, NONE if up is None else up] for lo, up in rng]
                    try:
                        r["cells"] = [{"e": [[e8(a), e8(b)] for a, b in c.edges], "v": vid(c.bin), "idx": list(c.index)}
                                      for c in S.iter_cells(hist, ranges=tuple(rng))]
                    except Exception as exc:   # noqa
                        r["ok"], r["exc"] = False, exc_name(exc)
                else:
                    r["dup"] = rnd.random() < 0.5
                    sep = rnd.choice([",", ";", "\t"])
                    lines = csv_lines(O, hist, r["dup"], rnd.randint(0, 3), sep)
                    rows = parse_csv(lines, sep)
                    # "parse back ... within the printed precision": 6 decimals
                    r["rows"] = [[e8(x) for x in row[:-1]] + [vid(row[-1], 5.0e-7 + 1e-9 * abs(row[-1]))] for row in rows]
            out.append(r)
        except Skip:
            continue
        except KeyError as exc:
            report("random:%s:value-not-from-histogram:dim=%d" % (op, dim), {"record": r, "value": repr(exc)})
        except Exception as exc:   # noqa
            report("random:%s:dim=%d:raised:%s" % (op, dim, exc_name(exc)), {"record": r, "exception": repr(exc)})
    return out


def record_addtol(rnd, n, report):
    """hist.add with edge tolerances on random meshes at random magnitudes (records k = "addtol")."""
    import lena.structures as S
    out = []
    for _ in range(n):
        dim = rnd.randint(1, 3)
        gedges = []
        for _d in range(dim):
            x = rnd.randint(-20, 8)
            e = [x]
            for _j in range(rnd.randint(1, 4)):
                x += rnd.randint(1, 4)
                e.append(x)
            gedges.append(e)
        tol = rnd.choice([{"kind": "default", "rel": [0, 0], "abs": [0, 1]},
                          {"kind": "rel", "rel": [1, 1024], "abs": [0, 1]},
                          {"kind": "abs", "rel": [0, 1], "abs": [1, 4]},
                          {"kind": "both", "rel": [1, 1024], "abs": [1, 4]}])
        kinds = ["none", "grid", "grid"] + ([] if tol["kind"] == "abs" else ["rel", "rel"])
        pk = rnd.choice(kinds)
        pert = {"axis": 0, "pos": 0, "kind": "none", "amt": [0, 1]}
        if pk != "none":
            ax = rnd.randrange(dim)
            pert = {"axis": ax + 1, "pos": rnd.randint(1, len(gedges[ax])), "kind": pk,
                    "amt": rnd.choice([[1, 8], [1, 4], [1, 2], [-1, 2], [-1, 8]]) if pk == "grid"
                    else (rnd.choice([[1, 2], [2, 1], [1, 1024], [3, 1]]) if tol["kind"] == "default"
                          else rnd.choice([[1, 2], [1, 1], [2, 1], [3, 4], [5, 4]]))}
        exps = [rnd.choice([0, 0, rnd.randint(-990, 990), rnd.randint(-60, 60)]) for _d in range(dim)]
        muls = [2.0 ** e for e in exps]
        mine = [[x * muls[d] for x in gedges[d]] for d in range(dim)]
        theirs = copy.deepcopy(mine)
        pm = muls[pert["axis"] - 1] if pk != "none" else muls[0]
        if pk != "none":
            d, pos = pert["axis"] - 1, pert["pos"] - 1
            x = gedges[d][pos]
            amt = float(fr(pert["amt"]))
            if pk == "grid":
                theirs[d][pos] = (x + amt) * pm
            else:
                eps = float(fr(tol["rel"])) if tol["kind"] != "default" else 1e-9
                theirs[d][pos] = x * pm * (1 - amt * eps)
        shape = [len(e) - 1 for e in gedges]
        it = [rnd.randint(-5, 5) for _i in range(200)]
        try:
            hist = S.histogram(mine[0] if dim == 1 else mine, bins=nested(_zeros(shape), dim, lambda _x: rnd.choice(it)))
            other = S.histogram(theirs[0] if dim == 1 else theirs, bins=nested(_zeros(shape), dim, lambda _x: rnd.choice(it)))
        except Exception:   # noqa
            continue
        want_bins = nested(_zeros(shape), dim, lambda _x: 0)
        w = rnd.choice([1, 2, -1])
        ok = True
        try:
            with watchdog(LIMIT):
                if tol["kind"] == "default":
                    res = hist.add(other, w)
                else:
                    res = hist.add(other, w, edges_abs_tol=float(fr(tol["abs"])) * pm, edges_rel_tol=float(fr(tol["rel"])))
        except Exception as exc:   # noqa
            ok = False
            if exc_name(exc) == "Other:Hang":
                report("random:histogram.add:tolerance:raised:Other:Hang", {"edges": repr(mine)})
                continue
        if ok:
            exp = [a + w * b for a, b in zip(flat(hist.bins), flat(other.bins))]
            if not isinstance(res, S.histogram) or flat(res.bins) != exp or res.edges != hist.edges:
                report("random:histogram.add:tolerance:result", {"edges": repr(mine), "other": repr(theirs),
                                                                  "observed": repr(res)})
                continue
        out.append({"k": "addtol", "edges": gedges, "pert": pert, "tol": tol, "ok": ok, "exps": exps})
    return out
