"""Harness for spec/Cache.tla: executes command histories on real lena Cache pipelines in a scratch
directory and records, per command, what the consumer observes (values, StopIteration, exceptions,
pull / work counters of the instrumented upstream).  The records are validated by
spec/Trace_Cache.tla (the spec decides what is allowed; nothing is judged here).

Pipeline   Src -> [Tap pre] -> Cache c1 -> [Tap mid] -> [Cache c2] -> [Tap post] -> consumer
"""
from __future__ import print_function

import copy
import gc
import json
import os
import re
import shutil

from . import core


class Injected(Exception):
    """Raised by a harness element at a chosen value (fault injection)."""


class InjectedBase(BaseException):
    """An injected failure that is NOT an Exception (like KeyboardInterrupt, SystemExit, GeneratorExit)."""


# what a harness element raises: "any element raises" covers every exception class
EXC_KINDS = ("exc", "base", "kbd", "exit")
_EXC_CLASS = {"exc": Injected, "base": InjectedBase, "kbd": KeyboardInterrupt, "exit": SystemExit}


def make_exc(kind, site):
    """The exception a harness element raises at `site`; marked, so that the consumer recognises it."""
    e = _EXC_CLASS[kind](site)
    e.lenaverif_site = site
    return e


class Unpicklable(object):
    """A flow value that cannot be cached: pickling it raises (inside Cache, while it dumps)."""

    def __init__(self, kind="exc"):
        self.kind = kind

    def __reduce__(self):
        raise make_exc(self.kind, "pkl")


class Src(object):
    """Instrumented source: counts the values pulled from it; may raise instead of value number `crash`,
    or deliver an unpicklable object as value number `bad`.

    avals / codes: the abstract values of the flow and their value codes (Cache.tla: FRESH - a value of its own in
    the style of the history; DUP - the SAME object as the value before it, yielded once more; k >= 0 - the special
    value number k of the history's set of special values, the same wherever it occurs)."""

    def __init__(self, style="int", specials=0):
        self.pulled = 0
        self.avals = []
        self.codes = []
        self.crash = None
        self.bad = None
        self.style = style
        self.specials = SPECIAL_SETS[specials % len(SPECIAL_SETS)]
        self.exc = "exc"       # kind of the exception raised at `crash` / by the unpicklable value

    def __call__(self):
        for x in self._gen(list(self.avals), list(self.codes), self.crash, self.bad, True):
            yield x

    def preview(self, avals, codes):
        """The flow as the consumer of the source sees it: a snapshot of every value at the moment it is yielded."""
        return [copy.deepcopy(x) for x in self._gen(list(avals), list(codes), None, None, False)]

    def _gen(self, avals, codes, crash, bad, count):
        style = self.style
        # aliasing upstreams: ONE context dict updated in place for every value / ONE growing list
        # (legal for a lazy flow: each value is consumed before the next one is produced)
        shared_ctx, shared_list = {}, []
        last = None
        for i, (a, code) in enumerate(zip(avals, codes), 1):
            if crash == i:
                raise make_exc(self.exc, "src")
            if count:
                self.pulled += 1
            if bad == i:
                yield Unpicklable(self.exc)
                continue
            if code == DUP and i > 1:
                x = last                      # the same object once more, unchanged
            elif 0 <= a < 100:
                x = copy.deepcopy(self.specials[a])
            elif style == "alias_ctx":
                shared_ctx["cur"] = a
                shared_ctx.setdefault("seen", []).append(a)
                x = (a, shared_ctx)
            elif style == "alias_list":
                shared_list.append(a)
                x = shared_list
            else:
                x = enc(a, style)
            last = x
            yield x


class Tap(object):
    """One-to-one run element that wraps each value in (name, value), counts them, may raise at value k."""

    def __init__(self, name):
        self.name = name
        self.work = 0
        self.crash = None
        self.exc = "exc"

    def run(self, flow):
        for x in flow:
            self.work += 1
            if self.crash == self.work:
                raise make_exc(self.exc, self.name)
            yield (self.name, x)


FRESH, DUP = -1, -2


def abstract(codes, ver):
    """Value codes of data version ver -> abstract values (Cache.tla Val): a special value is its code k (0..99),
    a DUP the value before it, a FRESH value 100 * ver + position."""
    out = []
    for i, k in enumerate(codes, 1):
        if k >= 0:
            out.append(k)
        elif k == DUP and i > 1:
            out.append(out[-1])
        else:
            out.append(100 * ver + i)
    return out


# special values (code k of the model -> element k of the set of the history): objects a loader / dumper could take
# for "no value", "end of the flow" or "end of the file" - None (the sentinel of iter(callable, None)), exception
# instances, empty and falsy objects, singletons, strings / bytes that look like the end of a pickle.
# A cache must store and replay each of them like any other value.
# (the quick data profiles use code 0 only: the first elements differ, None comes most often)
SPECIAL_SETS = ((None, EOFError(), b"", 0),
                (b"", None, StopIteration(), False),
                (None, Ellipsis, (), NotImplemented),
                (0, "", None, []),
                (EOFError(), 0.0, ".", None),
                (None, b"\x80\x04N.", EOFError, frozenset()))

# In-place modification downstream (Cache.tla mu = TRUE): the consumer modifies every value it has received - the dict /
# list objects found at the top of the value or inside its tuples get one more mark (as a lena element updates the
# context of a value in place).  A value that is yielded with k marks is an object that earlier runs yielded:
# it is recorded as 10000 * k + its abstract value (Cache.tla Mod).
MARK = "lenaverif-mark"


def mutate(x):
    """Modify the value in place."""
    if isinstance(x, tuple):
        for y in x:
            mutate(y)
    elif isinstance(x, dict):
        x[MARK] = x.get(MARK, 0) + 1
    elif isinstance(x, list):
        x.append(MARK)


def unmark(x):
    """-> (the value without the marks of mutate (a copy of the marked parts), the largest number of marks on a part)"""
    if isinstance(x, tuple):
        parts = [unmark(y) for y in x]
        return tuple(p[0] for p in parts), max([p[1] for p in parts] or [0])
    if isinstance(x, dict) and MARK in x:
        d = dict(x)
        return d, d.pop(MARK)
    if isinstance(x, list):
        k = 0
        while k < len(x) and x[len(x) - 1 - k] == MARK:
            k += 1
        return (x[:len(x) - k], k) if k else (x, 0)
    return x, 0


STYLES = ("int", "pair", "str", "nested", "ctxonly", "alias_ctx", "alias_list", "falsy", "shared")
# values that look like "nothing": a cache must store and replay them like any other value
FALSY = (None, 0, "", {}, [], False, 0.0, (), b"", frozenset())
ALIAS_STYLES = ("alias_ctx", "alias_list")
# styles whose values have a mutable part the consumer can modify in place (and that are new objects for every value)
MUT_STYLES = ("pair", "nested", "ctxonly", "shared")


def effective_style(style, scen):
    """The "falsy" style identifies its values by version and position: not usable together with special / repeated
    values (which look the same wherever they occur) - those histories use plain ints for their other values."""
    if scen.get("mu") and style not in MUT_STYLES:
        # the consumer modifies the values in place: values with a mutable part, a new object each
        # (the falsy objects are module constants, the aliasing styles one object the source itself updates)
        return MUT_STYLES[STYLES.index(style) % len(MUT_STYLES)]
    if style == "falsy" and any(k != FRESH for codes in scen["vk"] for k in codes):
        return "int"
    return style


def enc(a, style):
    """Abstract FRESH value a (100 * version + index) -> concrete picklable flow value
    (for "falsy": one of ten falsy objects, told apart by version and position; the aliasing styles are
    produced by Src itself)."""
    first = 100 * (a // 100) + 1
    if style == "falsy":
        return FALSY[(a // 100 + a % 100) % len(FALSY)]
    if style == "alias_ctx":
        return (a, {"cur": a, "seen": list(range(first, a + 1))})
    if style == "alias_list":
        return list(range(first, a + 1))
    if style == "shared":
        # internal sharing that differs per value: ONE new str object under two keys and in two places of
        # the data, one tuple object twice (pickle protocols >= 4 store the second occurrence as a
        # back-reference into the memo of that value)
        s = "name-%d" % a
        t = (a, s)
        return ([s, s, t], {"k1": s, "k2": s, "pair": t, "again": t})
    if style == "int":
        return a
    if style == "pair":
        return (a, {"idx": a, "name": "x%d" % a})
    if style == "str":
        return "s%d" % a
    if style == "nested":
        return ([a, a / 2.0, (a, "t")], {"ctx": {"a": a, "l": [a, None]}, "b": True})
    if style == "ctxonly":
        return (None, {"a": {"b": {"c": a}}})
    raise ValueError(style)


FORMS = ("seq", "source", "seq_calter", "source_calter", "seq_malter", "source_malter", "el_calter", "el_malter",
         "split", "seq_nested_calter", "seq_nested_malter")


# file names of the two caches of a pipeline (relative to the scratch directory):
# 0 a name with dots and a non-ASCII letter / a name in a directory that does not exist yet;
# 1 the same stem, different extensions;  2 no extension, and the first name is a prefix of the second;
# 3 both in one new directory, no extension / prefix + ".v2"
NAME_PAIRS = ((u"c1.v1.ü.pkl", os.path.join("sub", "c2.pkl")),
              ("events.raw", "events.sel"),
              ("events", "events.pkl"),
              (os.path.join("store", "cache"), os.path.join("store", "cache.v2")))


class Pipeline(object):
    """The real objects of one history (rebuilt by the `new` command; the files stay)."""

    def __init__(self, directory, nc, shape, style, names=0, exc="exc", specials=0):
        self.dir, self.nc, self.shape, self.style = directory, nc, shape, style
        self.exc = exc
        self.src = Src(style, specials)
        self.src.exc = exc
        self.taps = {}
        self.caches = []
        self.cont = None      # the container object of the last start (run again by `restart`)
        self.names = list(NAME_PAIRS[names % len(NAME_PAIRS)][:nc])

    def build(self, rc, protocol=2):
        import lena.flow
        self.taps = {k: Tap(k) for k in ("pre", "mid", "post") if self.shape.get(k)}
        for t in self.taps.values():
            t.exc = self.exc
        self.cont = None
        # both documented values of *method* (the same pickle module in Python 3)
        method = "pickle" if protocol in (0, 4) else "cPickle"
        self.caches = [lena.flow.Cache(os.path.join(self.dir, self.names[c]), recompute=bool(rc[c]),
                                       method=method, protocol=protocol) for c in range(self.nc)]
        els = []
        if "pre" in self.taps:
            els.append(self.taps["pre"])
        els.append(self.caches[0])
        if "mid" in self.taps:
            els.append(self.taps["mid"])
        if self.nc == 2:
            els.append(self.caches[1])
        if "post" in self.taps:
            els.append(self.taps["post"])
        self.els = els

    def wrap(self, x):
        for k in ("pre", "mid", "post"):
            if k in self.taps:
                x = (k, x)
        return x

    def start(self, form):
        """Build the container the way `form` says, keep it, and return the generator of its first run."""
        self.cont = None
        self.cont = self.make(form)
        return self.launch()

    def launch(self):
        """Run the kept container object (once more)."""
        import lena.core
        cont = self.cont
        if isinstance(cont, lena.core.Source):
            return cont()
        return cont.run(self.src())

    def make(self, form):
        import lena.core
        import lena.flow
        if form == "split":
            # the pipeline as the only branch of a Split (which passes its branches through
            # meta.alter_sequence): a bare Cache element when the pipeline is nothing else, a Sequence
            # otherwise.  Split.run materialises its input block, so an upstream that yields
            # one object mutated in place is not a lazy flow any more: those styles run as a plain Sequence
            if self.style in ALIAS_STYLES:
                form = "seq"
            elif len(self.els) == 1:
                return lena.core.Split([self.els[0]])
            else:
                return lena.core.Split([lena.core.Sequence(*self.els)])
        if form in ("el_calter", "el_malter"):
            # alter_sequence applied to a bare Cache element (the branches of the two functions for
            # "an element"); pipelines with more elements use the Sequence form
            if len(self.els) == 1:
                alter_fn = lena.flow.Cache.alter_sequence if form == "el_calter" else lena.core.alter_sequence
                return alter_fn(self.els[0])
            form = "seq_" + form[3:]
        base, _, alter = form.partition("_")
        nested = False
        if alter.startswith("nested_"):
            nested, alter = True, alter[len("nested_"):]
        els = list(self.els)
        if nested and len(els) > 1:
            # the caches sit in an inner Sequence
            els = [els[0], lena.core.Sequence(*els[1:])] if len(els) > 2 else [lena.core.Sequence(*els)]
        if base == "seq":
            cont = lena.core.Sequence(*els)
        else:
            cont = lena.core.Source(self.src, *els)
        if alter == "calter":
            cont = lena.flow.Cache.alter_sequence(cont)
        elif alter == "malter":
            cont = lena.core.alter_sequence(cont)
        if isinstance(cont, (list, tuple)):
            cont = lena.core.Sequence(*cont)
        return cont


def run_history(workdir, scen, cmds, style="int", protocol=2, drain=True, probe=1, keep=False, names=0, exc="exc",
                specials=0):
    """Execute the commands of one history; return the list of recorded events.

    cmds: dicts with cmd in new / drop / data / start / restart / next / raise / stop / release (as exported by
    Cache.tla);
    `restart` runs the container object of the last `start` once more (same Sequence / Source / Split object);
    `raise` is a `next` for which the element named by `a` was told at `start` to raise at that value (c = 1: the
    consumer keeps the exception object, as error-collecting code does); `stop` with a = "keep": the consumer stops
    pulling and keeps the iterator; `release` drops everything kept so far (the suspended generators are finalised).
    scen["mu"]: the consumer modifies every value in place after it has recorded it (first runs and replays alike).
    drain: a run still open at the end is continued to its end; probe: afterwards a fresh
    non-recompute pipeline is run `probe` times to its end (reveals what the caches now hold) - while the kept
    iterators / exceptions are still there, and once more after they were released.
    """
    kept = []
    try:
        return _run_history(workdir, scen, cmds, style, protocol, drain, probe, keep, names, exc, specials, kept)
    finally:
        # nothing suspended may survive the history (its files are removed, the next history uses the directory)
        if kept:
            del kept[:]
            gc.collect()
            if not keep:
                _clean(workdir)


def _run_history(workdir, scen, cmds, style, protocol, drain, probe, keep, names, exc, specials, kept):
    vk, nc, shape = scen["vk"], scen["nc"], scen["shape"]
    mu = bool(scen.get("mu"))
    lens = [len(codes) for codes in vk]
    n = max(lens)
    d = workdir
    _clean(d)
    pl = Pipeline(d, nc, shape, style, names=names, exc=exc, specials=specials)
    state = {"ver": 1, "gen": None, "rc": [False] * nc, "built": False, "npos": 0}
    events = []
    decode = {}

    def values(ver):
        """Abstract values and value codes of data version ver; every value is identified at the moment it is
        yielded by the repr of its snapshot (decode)."""
        codes = vk[min(ver, len(vk)) - 1]
        avals = abstract(codes, ver)
        for a, x in zip(avals, pl.src.preview(avals, codes)):
            decode.setdefault(repr(pl.wrap(x)), set()).add(a)
        return avals, codes

    def identify(x):
        """Abstract value of a yielded object: by the repr of its snapshot; where several abstract values
        look the same (falsy values) the one at the current position of the run is meant."""
        marks = 0
        if mu:
            # an object that the consumer of an earlier run has modified: 10000 * number of marks + its value
            x, marks = unmark(x)
        cands = decode.get(repr(x), ())
        if not cands:
            return -1
        here = [a for a in cands if a % 100 == state["npos"] + 1]
        return 10000 * marks + (min(here) if here else min(cands))

    def log(cmd, a, res, v=0, c=0):
        events.append({"cmd": cmd, "a": a, "res": res, "v": v, "c": c, "rc": list(state["rc"]),
                       "nk": len(kept), "pulled": pl.src.pulled,
                       "wpre": pl.taps["pre"].work if "pre" in pl.taps else 0,
                       "wmid": pl.taps["mid"].work if "mid" in pl.taps else 0})

    def do_next(keep_exc=False):
        g = state["gen"]
        try:
            x = next(g)
        except StopIteration:
            state["gen"] = None
            log("next", "", "stop")
            return "stop"
        except BaseException as exc:   # noqa
            state["gen"] = None
            site = getattr(exc, "lenaverif_site", None)
            if site is not None:
                # raised by a harness element (an Exception, a plain BaseException, KeyboardInterrupt or SystemExit)
                if keep_exc:
                    # the caller keeps the exception (with its traceback: the frames of the raising element
                    # and, through them, the suspended generators upstream of it)
                    kept.append(exc)
                log("next", site, "inj", c=1 if keep_exc else 0)
                return "inj"
            if not isinstance(exc, Exception):
                raise
            log("next", type(exc).__name__, "exc")
            return "exc"
        log("next", "", "val", v=identify(x))
        state["npos"] += 1
        if mu:
            # (after the value was recorded) the consumer modifies it in place
            mutate(x)
        del x
        return "val"

    def do_stop(kind):
        g = state["gen"]
        state["gen"] = None
        res = "ok"
        try:
            if kind == "close":
                g.close()
            elif kind == "keep":
                # the consumer just stops pulling and keeps the iterator: the run stays suspended
                kept.append(g)
            del g
            if kind == "abandon":
                gc.collect(1)
        except Exception:   # noqa
            res = "exc"
        log("stop", kind, res)

    def do_release():
        res = "ok"
        try:
            # (reference counting finalises the suspended generators at once - the kept objects are in no
            # reference cycle; the collection of the young generations is a cheap safety net)
            del kept[:]
            gc.collect(1)
        except Exception:   # noqa
            res = "exc"
        log("release", "", res)

    def do_start(form, crash):
        pl.src.avals, pl.src.codes = values(state["ver"])
        state["npos"] = 0
        pl.src.pulled = 0
        pl.src.crash = None
        pl.src.bad = None
        for t in pl.taps.values():
            t.work, t.crash = 0, None
        if crash is not None:
            site, k = crash
            if site == "src":
                pl.src.crash = k
            elif site == "pkl":
                pl.src.bad = k
            elif site in pl.taps:
                pl.taps[site].crash = k
        cmd = "start" if form is not None else "restart"
        try:
            state["gen"] = pl.start(form) if form is not None else pl.launch()
            log(cmd, form or "", "ok")
        except Exception as exc:   # noqa
            state["gen"] = None
            log(cmd, form or "", "exc:" + type(exc).__name__)

    def do_drain():
        for _ in range(n + 3):
            if state["gen"] is None or do_next() != "val":
                break
        if state["gen"] is not None:
            do_stop("close")

    def do_new(rc):
        state["rc"] = [bool(x) for x in rc]
        pl.build(state["rc"], protocol)
        state["built"] = True
        log("new", "", "ok")

    i = 0
    while i < len(cmds):
        c = cmds[i]
        name = c["cmd"]
        in_run = state["gen"] is not None
        if name in ("next", "raise", "stop"):
            if in_run:
                if name == "stop":
                    do_stop(c["a"])
                else:
                    do_next(keep_exc=(name == "raise" and c["c"] == 1))
            # else: the implementation ended the run earlier than this history assumed; skip
        else:
            if in_run:
                do_stop("close")
            if name == "new":
                do_new(c["rc"])
            elif not state["built"]:
                pass
            elif name == "drop":
                try:
                    pl.caches[c["c"] - 1].drop_cache()
                    res = "ok"
                except Exception as exc:   # noqa
                    res = "exc"
                log("drop", "", res, c=c["c"])
            elif name == "data":
                if state["ver"] < len(lens):
                    state["ver"] += 1
                    log("data", "", "ok")
            elif name == "release":
                if kept:
                    do_release()
            elif name == "restart" and pl.cont is None:
                pass     # (no container: the start that should have built one failed - reported there)
            elif name in ("start", "restart"):
                # look ahead: is an element told to raise in this run, and at which value
                crash, k = None, 0
                for later in cmds[i + 1:]:
                    if later["cmd"] == "next":
                        k += 1
                    elif later["cmd"] == "raise":
                        crash = (later["a"], k + 1)
                        break
                    else:
                        break
                do_start(c["a"] if name == "start" else None, crash)
        i += 1
    if state["gen"] is not None:
        if drain:
            do_drain()
        else:
            do_stop("close")
    if probe and state["built"]:
        do_new([False] * nc)
        for _ in range(probe):
            do_start("seq", None)
            if state["gen"] is not None:
                do_drain()
        if kept:
            # what the caches hold once the suspended runs are finalised
            do_release()
            do_start("seq", None)
            if state["gen"] is not None:
                do_drain()
    if not keep:
        _clean(d)
    return events


def _clean(d):
    """Remove every file below the scratch directory of a worker (directories are kept)."""
    for root, _dirs, files in os.walk(d):
        for f in files:
            os.unlink(os.path.join(root, f))


# ------------------------------------------------------------------------------------------
# export -> command histories


def cover_paths(records):
    """Transition records [vk, nc, shape, h] of the export -> distinct maximal command histories
    (a history that is a proper prefix of another one is dropped).  One trie of interned commands per scenario:
    the export of the thorough tier has several hundred thousand records."""
    intern = {}
    tries = {}
    for r in records:
        sk = (json.dumps(r["vk"]), r["nc"], json.dumps(r["shape"], sort_keys=True), bool(r.get("mu")))
        node = tries.setdefault(sk, {})
        for e in r["h"]:
            c = (e["cmd"], e["a"], tuple(e["rc"]), e["c"])
            c = intern.setdefault(c, c)
            nxt = node.get(c)
            if nxt is None:
                nxt = node[c] = {}
            node = nxt
    out = []
    for sk in sorted(tries):
        vk, nc, sh = json.loads(sk[0]), sk[1], json.loads(sk[2])
        # depth-first, children in sorted order: the maximal histories in lexicographic order
        stack = [(tries[sk], ())]
        found = []
        while stack:
            node, h = stack.pop()
            if not node:
                if h:
                    found.append(h)
                continue
            for c in sorted(node, reverse=True):
                stack.append((node[c], h + (c,)))
        for h in found:
            out.append(({"lens": [len(codes) for codes in vk], "vk": vk, "nc": nc, "shape": sh, "mu": sk[3]},
                        [{"cmd": e[0], "a": e[1], "rc": list(e[2]), "c": e[3]} for e in h]))
        tries[sk] = None
    return out


# ------------------------------------------------------------------------------------------
# replay + validation by Trace_Cache.tla, sharded over worker processes
# (each shard: replay its histories on the real code, then one TLC run over the recorded events)

_AT_RE = re.compile(r'^<<"AT", (\d+), (\d+)>>', re.M)
_FIELDS = ("mu", "vk", "nc", "shape", "ev")


_KEEP = {"new": ("cmd", "res", "rc"), "drop": ("cmd", "res", "c"), "data": ("cmd",),
         "start": ("cmd", "res", "a", "pulled", "wpre", "wmid"),
         "restart": ("cmd", "res", "pulled", "wpre", "wmid"),
         "next": ("cmd", "res", "a", "v", "c", "pulled", "wpre", "wmid"),
         "stop": ("cmd", "res", "a", "pulled", "wpre", "wmid"),
         "release": ("cmd", "res")}


def _tlc_trace(workdir, cfg, recs, label):
    path = os.path.join(workdir, "%s.json" % label)
    with open(path, "w") as f:
        json.dump([{"mu": bool(r.get("mu")), "vk": r["vk"], "nc": r["nc"], "shape": r["shape"],
                    "ev": [{k: e[k] for k in _KEEP[e["cmd"]]} for e in r["ev"]]} for r in recs], f)
    res = core.run_tlc("Trace_Cache", cfg, workdir, workers=1, env={"TRACE_FILE": path}, timeout=3000)
    os.remove(path)
    return res


def _stats(res, cfg):
    return {"cfg": cfg, "generated": res.generated, "distinct": res.distinct, "wall": res.wall,
            "exit": res.exit, "violated": res.violated, "tail": res.out[-2500:] if res.exit != 0 else ""}


def validate_shard(workdir, recs, label, chunk=4000):
    """One TLC run per chunk of histories (explored side by side).  TLC prints <<"AT", history, j>> for
    every state reached: events 1..j-1 of that history are a behaviour of the spec.
    -> ({index of a rejected history: number of accepted events}, [TLC stats])."""
    stats = []
    rejected = {}
    # chunks bound the memory of each TLC process (many shards run side by side)
    for lo in range(0, len(recs), chunk):
        part = recs[lo:lo + chunk]
        res = _tlc_trace(workdir, "Trace_Cache.cfg", part, label)
        stats.append(_stats(res, "Trace_Cache.cfg"))
        if res.exit != 0:
            return {}, stats
        reach = {}
        for hi, j in _AT_RE.findall(res.out):
            hi, j = int(hi), int(j)
            if j > reach.get(hi, 0):
                reach[hi] = j
        del res
        for i, rec in enumerate(part):
            acc = reach.get(i + 1, 1) - 1
            if acc < len(rec["ev"]):
                rejected[lo + i] = acc
    return rejected, stats


MAX_JVMS = 6
_TLC_SEM = None


def _shard_job(args):
    """Worker: replay the histories of one shard, validate them, return a compact summary."""
    import hashlib
    workdir, shard, items, repo = args
    import sys
    if repo not in sys.path:
        sys.path.insert(0, repo)
    d = os.path.join(workdir, "shard_%s" % shard)
    os.makedirs(os.path.join(d, "fs"), exist_ok=True)
    gc.collect()
    gc.freeze()
    recs = []
    for it in items:
        gi, scen, cmds, style, protocol = it[:5]
        opts = it[5] if len(it) > 5 else {}
        names, exc, specials = opts.get("names", 0), opts.get("exc", "exc"), opts.get("specials", 0)
        style = effective_style(style, scen)
        # (mu: the fresh Cache objects of the probe replay the files completely twice)
        ev = run_history(os.path.join(d, "fs"), scen, cmds, style=style, protocol=protocol, names=names, exc=exc,
                         specials=specials, probe=2 if scen.get("mu") else 1)
        lens = [len(codes) for codes in scen["vk"]]
        recs.append({"mu": bool(scen.get("mu")), "lens": lens, "vk": scen["vk"], "n": max(lens), "nc": scen["nc"], "shape": scen["shape"], "ev": ev,
                     "style": style, "protocol": protocol, "cmds": cmds, "gi": gi,
                     "names": list(NAME_PAIRS[names % len(NAME_PAIRS)][:scen["nc"]]), "exc": exc,
                     "specials": [repr(x) for x in SPECIAL_SETS[specials % len(SPECIAL_SETS)]]})
    # at most MAX_JVMS TLC processes at a time (memory), however many replay workers there are
    if _TLC_SEM is not None:
        _TLC_SEM.acquire()
    try:
        rejected, stats = validate_shard(d, recs, "trace")
    finally:
        if _TLC_SEM is not None:
            _TLC_SEM.release()
    hashes, bad = [], []
    for i, rec in enumerate(recs):
        if i in rejected:
            bad.append((rec, rejected[i]))
        elif len(rec["ev"]) > 3 and rec["n"] > 0:
            hashes.append(hashlib.md5(core.canon([rec[k] for k in _FIELDS]).encode()).hexdigest())
    samples = [r for i, r in enumerate(recs) if i not in rejected and r["n"] > 1 and len(r["cmds"]) > 8][:2]
    shutil.rmtree(d, ignore_errors=True)
    return {"n": len(recs), "events": sum(len(r["ev"]) for r in recs), "bad": bad, "hashes": hashes,
            "stats": stats, "samples": samples}


class _Res(object):
    def __init__(self, st):
        self.generated, self.distinct, self.wall, self.exit = st["generated"], st["distinct"], st["wall"], st["exit"]
        self.coverage = {}


def classify(rec, acc):
    """Short stable signature of the first rejected event of a history (for the violation key)."""
    ev = rec["ev"]
    if acc < 0 or acc >= len(ev):
        return "unlocated"
    e = ev[acc]
    start = acc
    while start > 0 and ev[start]["cmd"] not in ("start", "restart"):
        start -= 1
    built = start
    while built > 0 and ev[built]["cmd"] != "start":
        built -= 1
    form = ev[built]["a"] if ev[built]["cmd"] == "start" else ""
    how = "hoisted" if "alter" in form else "plain"
    # a stopped run was still kept suspended (iterator / exception kept by the caller) / had been released before
    released = any(x["cmd"] == "release" for x in ev[:acc + 1])
    if e.get("nk"):
        how += "+held"
    before = ev[:start]
    interrupted_before = any(
        (x["cmd"] == "stop") or (x["cmd"] == "next" and x["res"] in ("inj", "exc")) for x in before)
    sig = "%s=%s" % (e["cmd"], e["res"].split(":")[0])
    vals = [x["v"] for x in ev[start:acc] if x["cmd"] == "next" and x["res"] == "val"]
    if e["cmd"] == "next" and e["res"] == "stop":
        # a proper prefix of one version of the flow, after some run was interrupted, presented as complete
        full = rec["n"]
        if vals and 1 <= vals[0] // 100 <= len(rec["lens"]):
            full = rec["lens"][vals[0] // 100 - 1]
        prefix = len(vals) < full and all(v % 100 == i + 1 and v // 100 == vals[0] // 100
                                          for i, v in enumerate(vals))
        # the value the flow should have continued with: a special value (None, ...) / the same object once more
        nxt = set()
        for ver, codes in enumerate(rec.get("vk", ()), 1):
            av = abstract(codes, ver)
            if len(vals) < len(av) and av[:len(vals)] == vals:
                nxt.add("special" if codes[len(vals)] >= 0 else "repeated" if av[len(vals)] == (vals or [None])[-1]
                        else "fresh")
        if prefix and interrupted_before and not e["pulled"]:
            kind = "truncated-cache-served"
        elif nxt & {"special", "repeated"} and not e["pulled"]:
            kind = "ended-at-%s-value" % sorted(nxt & {"special", "repeated"})[-1]
        elif len(vals) < full:
            kind = "ended-early"
        else:
            kind = "unexpected-end"
    elif e["cmd"] == "next" and e["res"] == "val":
        if e["v"] >= 10000:
            # an object that an earlier run yielded, as the consumer modified it in place since, yielded again
            kind = "value-modified-by-earlier-run"
        elif e["v"] == -1:
            kind = "altered-value"
        elif e["pulled"] or e["wpre"]:
            kind = "upstream-touched-or-recomputed"
        else:
            kind = "unexpected-loaded-value"
    elif e["cmd"] == "next":
        kind = "unexpected-exception"
    elif e["cmd"] in ("start", "restart"):
        kind = "start-failed" if e["res"] != "ok" else "upstream-touched-at-start"
    elif e["cmd"] == "drop":
        kind = "drop-failed"
    elif e["cmd"] == "release":
        kind = "release-failed"
    else:
        kind = "unexpected"
    if released and e["cmd"] == "next" and not e["pulled"] and not kind.startswith(("ended-at-", "value-modified-")):
        # a run that only loads, after suspended runs were finalised, does not replay what was stored (a wrong
        # value, an early end or an unreadable file: one signature)
        return "released-run-changed-cache:next:load"
    if released and not e.get("nk"):
        how += "+released"
    return "%s:%s:%s" % (kind, sig, how)


def private_scratch(ctx):
    import tempfile
    os.makedirs(core.BUILD, exist_ok=True)
    return tempfile.mkdtemp(prefix="%s_scratch_" % ctx.pid, dir=core.BUILD)


def check_histories(ctx, items, what):
    """items: list of (scenario, commands, style, protocol).  Replays every history on the real code,
    validates the records with Trace_Cache.tla, accounts them in ctx and reports one violation per
    distinct signature (the shortest rejected history is the detail).  Returns accepted count."""
    import multiprocessing
    if not items:
        return 0
    nsh = max(1, min(ctx.nworkers, (len(items) + 199) // 200))
    if len(items) < 40000:
        nsh = min(nsh, MAX_JVMS)      # one wave of TLC runs
    shards = [[] for _ in range(nsh)]
    for gi, it in enumerate(items):
        shards[gi % nsh].append((gi,) + tuple(it))
    # a private scratch directory (ctx.workdir is wiped when another run of the same check starts)
    scratch = private_scratch(ctx)
    jobs = [(scratch, "%s%d" % (what, k), sh, ctx.repo) for k, sh in enumerate(shards)]
    global _TLC_SEM
    try:
        if nsh == 1:
            _TLC_SEM = None
            outs = [_shard_job(jobs[0])]
        else:
            mp = multiprocessing.get_context("fork")
            _TLC_SEM = mp.Semaphore(MAX_JVMS)     # inherited by the forked workers
            pool = mp.Pool(nsh)
            try:
                outs = pool.map(_shard_job, jobs)
            finally:
                pool.close()
                pool.join()
                _TLC_SEM = None
    finally:
        shutil.rmtree(scratch, ignore_errors=True)
    nacc = 0
    worst = {}
    for o in outs:
        for st in o["stats"]:
            ctx._account("trace", "Trace_Cache", st["cfg"], _Res(st))
            if st["exit"] != 0:
                raise core.MachineryError("trace validation Trace_Cache/%s broke (exit %s, violated %s):\n%s" % (
                    st["cfg"], st["exit"], st["violated"], st["tail"]))
        ctx.evaluations += o["n"]
        ok = o["n"] - len(o["bad"])
        nacc += ok
        ctx.traces += ok
        ctx.distinct.update(o["hashes"])
        for rec, acc in o["bad"]:
            key = classify(rec, acc)
            if key not in worst or (len(rec["ev"]), rec["gi"]) < (len(worst[key][0]["ev"]), worst[key][0]["gi"]):
                worst[key] = (rec, acc)
        for r in o["samples"]:
            ctx.sample({"recorded_history_%s" % what: {k: r[k] for k in ("mu", "lens", "vk", "nc", "shape", "style", "ev")}}, limit=4)
    for key in sorted(worst):
        rec, acc = worst[key]
        ctx.violation("Cache:%s" % key, {
            "found_by": what,
            "scenario": {"consumer_modifies_values_in_place": rec["mu"], "lens": rec["lens"], "value_codes": rec["vk"], "special_values": rec["specials"],
                         "nc": rec["nc"], "shape": rec["shape"], "style": rec["style"],
                         "protocol": rec["protocol"], "cache_names": rec["names"], "injected_exception": rec["exc"]},
            "commands": rec["cmds"],
            "accepted_events": rec["ev"][:max(acc, 0)],
            "first_rejected_event": rec["ev"][acc] if 0 <= acc < len(rec["ev"]) else None})
    return nacc
