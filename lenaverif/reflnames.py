"""Names a *computed* name expression can evaluate to (C20, ReflectiveResolve).

A name of a module can be referred to by a string that is computed at run time:

    getattr(lena.output.to_csv, "hist{}d_to_csv".format(data.dim))
    globals()["_to_" + kind]          vars(mod)[name]          mod.__dict__[name]

This module evaluates the name expression *abstractly*: the result is a list of alternatives, each a
sequence of pieces - a literal string or a hole (a part that depends on an argument / on data).  A hole has a
finite domain when the code itself bounds it (a loop over a literal collection, a membership test against a
literal collection somewhere in the function, a literal dict that maps to the strings), otherwise it is open
and the extractor instantiates it over a small universe of argument values (UNIVERSE) - the bounded set of
"any argument" of the model.  Only the AST is used; nothing is imported or evaluated.
"""
import ast
import itertools
import re
import string

# the values an open hole takes in the model (as str()): small numbers (dimensions, indices) and a word
UNIVERSE = ("0", "1", "2", "3", "x")
UNIVERSE_VALUES = (0, 1, 2, 3, "x")        # the same, as the arguments a driver passes
MAX_ALTS = 32
MAX_NAMES = 64


class Hole(object):
    def __init__(self, label, domain=None):
        self.label = label
        self.domain = domain        # None: open; else tuple of strings

    def show(self):
        if self.domain is None:
            return "{}"
        return "{" + "|".join(self.domain) + "}"


def _src(node):
    try:
        return ast.unparse(node)
    except Exception:   # noqa
        return type(node).__name__


def _const_str(v):
    """str() of a constant as the code would get it, or None."""
    if isinstance(v, (str, int, bool)) or v is None:
        return str(v)
    return None


def literal_elements(node):
    """Constants of a literal tuple / list / set / dict keys, as strings; None when not such a literal."""
    if isinstance(node, (ast.Tuple, ast.List, ast.Set)):
        elts = node.elts
    elif isinstance(node, ast.Dict):
        elts = node.keys
    else:
        return None
    out = []
    for e in elts:
        if not isinstance(e, ast.Constant):
            return None
        s = _const_str(e.value)
        if s is None:
            return None
        out.append(s)
    return tuple(out)


class Scope(object):
    """What is known about the function (outermost call-time scope) the expression occurs in."""

    def __init__(self, fnodes, shallow=False, helpers=None):
        self.fnodes = [f for f in fnodes if f is not None]
        self.shallow = shallow      # module level: the bodies of functions are not part of the scope
        self.helpers = helpers      # name -> the one function definition of the module with that name, or None
        self._assign = None
        self._narrow = None
        self._tests = None

    def _walk(self):
        for f in self.fnodes:
            if not self.shallow:
                for n in ast.walk(f):
                    yield n
                continue
            todo = [f]
            while todo:
                n = todo.pop()
                yield n
                for c in ast.iter_child_nodes(n):
                    if not isinstance(c, (ast.FunctionDef, ast.AsyncFunctionDef, ast.Lambda)):
                        todo.append(c)

    def assignments(self, name):
        """[("val", expr) | ("iter", expr) | ("unknown", None)] for the local name; [] if it is never bound
        in the known function bodies (a parameter then counts as unknown)."""
        if self._assign is None:
            tab = {}

            def add(target, kind, val):
                if isinstance(target, ast.Name):
                    tab.setdefault(target.id, []).append((kind, val))
                elif isinstance(target, (ast.Tuple, ast.List, ast.Starred)):
                    for n in ast.walk(target):
                        if isinstance(n, ast.Name):
                            tab.setdefault(n.id, []).append(("unknown", None))
            for n in self._walk():
                if isinstance(n, ast.Assign):
                    for t in n.targets:
                        add(t, "val", n.value)
                elif isinstance(n, ast.AnnAssign) and n.value is not None:
                    add(n.target, "val", n.value)
                elif isinstance(n, ast.AugAssign):
                    add(n.target, "unknown", None)
                elif isinstance(n, (ast.For, ast.AsyncFor)):
                    add(n.target, "iter", n.iter)
                elif isinstance(n, ast.comprehension):
                    add(n.target, "iter", n.iter)
                elif isinstance(n, ast.NamedExpr):
                    add(n.target, "val", n.value)
                elif isinstance(n, (ast.With, ast.AsyncWith)):
                    for it in n.items:
                        if it.optional_vars is not None:
                            add(it.optional_vars, "unknown", None)
                elif isinstance(n, ast.ExceptHandler) and n.name:
                    tab.setdefault(n.name, []).append(("unknown", None))
                elif isinstance(n, (ast.Import, ast.ImportFrom)):
                    for al in n.names:
                        tab.setdefault(al.asname or al.name.split(".")[0], []).append(("unknown", None))
                elif isinstance(n, ast.arguments):
                    for a in list(n.posonlyargs) + list(n.args) + list(n.kwonlyargs) + [n.vararg, n.kwarg]:
                        if a is not None:
                            tab.setdefault(a.arg, []).append(("unknown", None))
            self._assign = tab
        return self._assign.get(name, [])

    def narrowed(self, node):
        """The literal collection the expression is tested against with `in` / `not in` somewhere in the function
        (flow-insensitive: the test is taken to guard the reference), or None."""
        if self._narrow is None:
            tab = {}
            for n in self._walk():
                if isinstance(n, ast.Compare) and len(n.ops) == 1 and isinstance(n.ops[0], (ast.In, ast.NotIn)):
                    dom = literal_elements(n.comparators[0])
                    if dom is not None:
                        key = ast.dump(n.left)
                        tab[key] = tuple(sorted(set(tab.get(key, ()) + dom)))
            self._narrow = tab
        return self._narrow.get(ast.dump(node))

    def tested(self, name_expr):
        """Is the presence of the computed name tested in the function: hasattr(_, <same expression>) or
        <same expression> in vars(_) / globals() / _.__dict__ ?"""
        if self._tests is None:
            tests = set()
            for n in self._walk():
                if (isinstance(n, ast.Call) and isinstance(n.func, ast.Name) and n.func.id == "hasattr"
                        and len(n.args) == 2):
                    tests.add(ast.dump(n.args[1]))
                elif isinstance(n, ast.Compare) and len(n.ops) == 1 and isinstance(n.ops[0], (ast.In, ast.NotIn)):
                    c = n.comparators[0]
                    if (isinstance(c, ast.Call) and isinstance(c.func, ast.Name) and c.func.id in ("vars", "globals", "dir")) \
                            or (isinstance(c, ast.Attribute) and c.attr == "__dict__"):
                        tests.add(ast.dump(n.left))
            self._tests = tests
        return ast.dump(name_expr) in self._tests


def _concat(a, b):
    out = [x + y for x in a for y in b]
    return out if len(out) <= MAX_ALTS else None


def _open(node):
    return [(Hole(_src(node)),)]


_PCT = re.compile(r"%(%|[sdri])")


def aeval(node, scope, depth=0):
    """Alternatives (list of tuples of str | Hole) the string-valued expression can evaluate to."""
    res = _aeval(node, scope, depth)
    if res is None or len(res) > MAX_ALTS:
        return _open(node)
    return res


def _value(node, scope, depth):
    """An expression converted with str() / '{}' / '%s'."""
    if isinstance(node, ast.Constant):
        s = _const_str(node.value)
        return [(s,)] if s is not None else _open(node)
    return aeval(node, scope, depth)


def _aeval(node, scope, depth):
    if depth > 4:
        return _open(node)
    if isinstance(node, ast.Constant):
        if isinstance(node.value, str):
            return [(node.value,)]
        return _open(node)
    if isinstance(node, ast.JoinedStr):
        acc = [()]
        for v in node.values:
            if isinstance(v, ast.Constant):
                part = [(str(v.value),)]
            elif isinstance(v, ast.FormattedValue) and v.format_spec is None and v.conversion in (-1, 115):
                part = _value(v.value, scope, depth + 1)
            else:
                part = _open(v.value if isinstance(v, ast.FormattedValue) else v)
            acc = _concat(acc, part)
            if acc is None:
                return None
        return acc
    if isinstance(node, ast.BinOp) and isinstance(node.op, ast.Add):
        return _concat(aeval(node.left, scope, depth + 1), aeval(node.right, scope, depth + 1))
    if isinstance(node, ast.BinOp) and isinstance(node.op, ast.Mod) and isinstance(node.left, ast.Constant) \
            and isinstance(node.left.value, str):
        fmt = node.left.value
        args = list(node.right.elts) if isinstance(node.right, ast.Tuple) else [node.right]
        specs = _PCT.findall(fmt)
        if "%" in _PCT.sub("", fmt) or sum(1 for s in specs if s != "%") != len(args) \
                or any(isinstance(a, ast.Starred) for a in args):
            return _open(node)
        acc, pos, k = [()], 0, 0
        for m in _PCT.finditer(fmt):
            acc = _concat(acc, [(fmt[pos:m.start()],)])
            if m.group(1) == "%":
                part = [("%",)]
            else:
                part = _value(args[k], scope, depth + 1)
                k += 1
            acc = _concat(acc, part) if acc is not None else None
            if acc is None:
                return None
            pos = m.end()
        return _concat(acc, [(fmt[pos:],)])
    if isinstance(node, ast.Call):
        f = node.func
        if isinstance(f, ast.Name) and f.id == "str" and len(node.args) == 1 and not node.keywords:
            return _value(node.args[0], scope, depth + 1)
        if isinstance(f, ast.Attribute) and f.attr == "format" and isinstance(f.value, ast.Constant) \
                and isinstance(f.value.value, str):
            if any(isinstance(a, ast.Starred) for a in node.args) or any(k.arg is None for k in node.keywords):
                return _open(node)
            kw = dict((k.arg, k.value) for k in node.keywords)
            try:
                parsed = list(string.Formatter().parse(f.value.value))
            except ValueError:
                return _open(node)
            acc, auto = [()], 0
            for lit, field, spec, conv in parsed:
                acc = _concat(acc, [(lit,)])
                if acc is None:
                    return None
                if field is None:
                    continue
                arg = None
                if field == "":
                    if auto < len(node.args):
                        arg = node.args[auto]
                    auto += 1
                elif field.isdigit():
                    if int(field) < len(node.args):
                        arg = node.args[int(field)]
                elif field in kw:
                    arg = kw[field]
                if arg is None or spec or conv not in (None, "s"):
                    part = [(Hole(field or "{}"),)]
                else:
                    part = _value(arg, scope, depth + 1)
                acc = _concat(acc, part)
                if acc is None:
                    return None
            return acc
        if isinstance(f, ast.Attribute) and f.attr == "join" and isinstance(f.value, ast.Constant) \
                and isinstance(f.value.value, str) and len(node.args) == 1 \
                and isinstance(node.args[0], (ast.Tuple, ast.List)) and not node.keywords:
            sep, acc = f.value.value, [()]
            for k, e in enumerate(node.args[0].elts):
                if isinstance(e, ast.Starred):
                    return _open(node)
                if k:
                    acc = _concat(acc, [(sep,)])
                acc = _concat(acc, aeval(e, scope, depth + 1)) if acc is not None else None
                if acc is None:
                    return None
            return acc
        # a helper of the same module that builds the name: f(..) / self.f(..) -> what it returns, its
        # parameters being arguments (open holes)
        callee = None
        if scope.helpers is not None:
            if isinstance(f, ast.Name):
                callee = scope.helpers(f.id)
            elif isinstance(f, ast.Attribute) and isinstance(f.value, ast.Name) and f.value.id in ("self", "cls"):
                callee = scope.helpers(f.attr)
        if callee is not None and depth < 3:
            inner = Scope([callee], helpers=scope.helpers)
            rets = [n.value for n in inner._walk() if isinstance(n, ast.Return) and n.value is not None]
            if rets and not any(isinstance(n, (ast.Yield, ast.YieldFrom)) for n in inner._walk()):
                out = []
                for r in rets:
                    out += aeval(r, inner, depth + 2)
                return out
        return _holes_for(node, scope)
    if isinstance(node, ast.IfExp):
        return aeval(node.body, scope, depth + 1) + aeval(node.orelse, scope, depth + 1)
    if isinstance(node, ast.BoolOp) and isinstance(node.op, ast.Or):
        out = []
        for v in node.values:
            out += aeval(v, scope, depth + 1)
        return out
    if isinstance(node, ast.Subscript) and isinstance(node.value, ast.Dict):
        # {1: "hist1d", 2: "hist2d"}[dim]: one of the values (a missing key is not a name-resolution matter)
        out = []
        for v in node.value.values:
            out += aeval(v, scope, depth + 1)
        return out or _open(node)
    if isinstance(node, ast.Name):
        dom = scope.narrowed(node)
        if dom is not None:
            return [(Hole(node.id, dom),)]
        binds = scope.assignments(node.id)
        if not binds or any(k == "unknown" for k, _ in binds):
            return [(Hole(node.id),)]
        out = []
        for kind, val in binds:
            if kind == "val":
                out += _value(val, scope, depth + 1)
            else:
                dom = literal_elements(val)
                if dom is None:
                    return [(Hole(node.id),)]
                out += [(d,) for d in dom]
        return out
    return _holes_for(node, scope)


def _holes_for(node, scope):
    dom = scope.narrowed(node)
    return [(Hole(_src(node), dom),)]


def pattern(alts):
    return " | ".join("".join(p if isinstance(p, str) else p.show() for p in alt) for alt in alts)


def instances(alts):
    """(names, open): the strings of the alternatives with every hole instantiated over its domain (open holes
    over UNIVERSE), and whether some hole is open."""
    names, is_open = [], False
    for alt in alts:
        doms = []
        for p in alt:
            if isinstance(p, str):
                doms.append((p,))
            else:
                if p.domain is None:
                    is_open = True
                doms.append(p.domain if p.domain is not None else UNIVERSE)
        for combo in itertools.product(*doms):
            s = "".join(combo)
            if s not in names:
                names.append(s)
            if len(names) >= MAX_NAMES:
                return names, True
    return names, is_open
