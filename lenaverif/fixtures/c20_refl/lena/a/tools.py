"""Converters found by name."""


def conv1d(h):
    return ("1d", h)


def conv2d(h):
    return ("2d", h)
