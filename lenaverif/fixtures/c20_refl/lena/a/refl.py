"""References to names of module namespaces by computed strings.

Every function takes one argument; the self-test calls it with each value of reflnames.UNIVERSE_VALUES.
"""
import sys

import lena
import lena.a.tools
from lena.a import tools

__all__ = []


def helper_a():
    return "a"


def helper_b():
    return "b"


# ---- getattr(M, computed)
def bad_format(x):
    return getattr(tools, "conv{}d".format(x))


def bad_percent(x):
    return getattr(lena.a.tools, "conv%sd" % x)


def bad_fstring(x):
    return getattr(lena.a.tools, f"conv{x}d")


def bad_wrong_handler(x):
    # the handler catches what a dict lookup raises, not what getattr raises
    try:
        return getattr(tools, "conv{}d".format(x))
    except KeyError:
        return None


def ok_handler(x):
    try:
        return getattr(tools, "conv{}d".format(x))
    except AttributeError:
        return None


def ok_default(x):
    return getattr(tools, "conv{}d".format(x), None)


def ok_narrowed(x):
    if x not in (1, 2):
        return None
    return getattr(tools, "conv{}d".format(x))


def bad_narrowed(x):
    # 3 is let through, and there is no conv3d
    if x not in (1, 2, 3):
        return None
    return getattr(tools, "conv{}d".format(x))


def ok_hasattr(x):
    name = "conv" + str(x) + "d"
    if hasattr(tools, name):
        return getattr(tools, name)
    return None


def bad_concat(x):
    name = "conv" + str(x) + "d"
    return getattr(tools, name)


def bad_param(x):
    return getattr(lena.a.tools, x)


def bad_alias(x):
    mod = lena.a.tools
    return getattr(mod, "conv{0}d".format(x))


def ok_loop(x):
    return [getattr(tools, name) for name in ("conv1d", "conv2d")]


def bad_loop(x):
    res = []
    for name in ("conv1d", "conv4d"):
        res.append(getattr(tools, name))
    return res


def ok_dict_literal(x):
    if x not in (1, 2):
        return None
    return getattr(tools, {1: "conv1d", 2: "conv2d"}[x])


def ok_literal(x):
    return getattr(tools, "conv1d")


def bad_literal(x):
    return getattr(tools, "conv9d")


def ok_not_a_module(x):
    return getattr(x, "conv{}d".format(1), None) or getattr([], "append")


def bad_self(x):
    return getattr(sys.modules[__name__], "helper_{}".format(x))


def ok_self(x):
    return [getattr(sys.modules[__name__], "helper_" + s) for s in ("a", "b")]


# ---- namespace dictionaries
def bad_globals(x):
    return globals()["helper_" + str(x)]


def ok_globals(x):
    return [globals()[n] for n in ("helper_a", "helper_b")]


def ok_globals_handler(x):
    try:
        return globals()["helper_" + str(x)]
    except KeyError:
        return None


def bad_globals_wrong_handler(x):
    try:
        return globals()["helper_" + str(x)]
    except AttributeError:
        return None


def bad_vars(x):
    return vars(tools)["conv%sd" % (x,)]


def ok_vars_tested(x):
    name = "conv%sd" % (x,)
    if name in vars(tools):
        return vars(tools)[name]
    return None


def bad_dict(x):
    return lena.a.tools.__dict__["conv{}d".format(x)]


def ok_dict_get(x):
    return lena.a.tools.__dict__.get("conv{}d".format(x))


# ---- what has been imported decides
def ok_subpackage(x):
    return getattr(lena, "a")


def bad_subpackage_b(x):
    # lena.b is an attribute of lena only if somebody imported it
    return [getattr(lena, sub) for sub in ("a", "b")]


# ---- other ways to get hold of the module
def bad_local_from(x):
    from lena.a import tools as mod
    return getattr(mod, "conv{}d".format(x))


def bad_local_import(x):
    import lena.a.tools as mod
    return getattr(mod, "conv{}d".format(x))


def bad_sys_modules(x):
    return getattr(sys.modules["lena.a.tools"], "conv{}d".format(x))


def ok_local_from(x):
    from lena.a import tools as mod
    return [getattr(mod, "conv{}d".format(d)) for d in (1, 2)]


def bad_helper(x):
    return getattr(tools, _name(x))


def _name(dim):
    return "conv{}d".format(dim)


def ok_helper(x):
    if x not in (1, 2):
        return None
    return getattr(tools, _lit(x))


def _lit(dim):
    return {1: "conv1d", 2: "conv2d"}[dim]



# ---- attribute chains below a handler of AttributeError that is there for something else (ChainsResolve, guard "A")
def bad_guarded_submodule_b(x):
    # the handler is meant for x without .real; lena.b is a submodule nothing here imports: swallowed, other result
    try:
        return x.real + lena.b.value
    except AttributeError:
        return None


def ok_guarded_plain_attribute(x):
    # feature probing: missing in every import state alike
    try:
        return lena.a.tools.no_such_feature
    except AttributeError:
        return None
