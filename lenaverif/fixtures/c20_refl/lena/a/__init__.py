from .tools import conv1d, conv2d
from .refl import *     # noqa

__all__ = ["conv1d", "conv2d"]
