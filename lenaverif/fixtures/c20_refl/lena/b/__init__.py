"""A subpackage that lena.a does not import."""
value = 1
