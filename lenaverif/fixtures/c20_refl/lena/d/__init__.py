"""A lookup by a computed name that fails while the package is imported - unless lena.b was imported before."""
import lena
import lena.a

PARTS = [getattr(lena, sub) for sub in ("a", "b")]
