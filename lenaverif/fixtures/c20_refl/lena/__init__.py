"""Fixture package (see ../README.txt)."""
