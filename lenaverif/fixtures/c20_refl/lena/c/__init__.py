"""Lookups by computed names while the package is imported."""
import lena
from lena.a import tools

# every candidate exists
TABLE = dict((d, getattr(tools, "conv%dd" % d)) for d in (1, 2))
first = getattr(tools, "conv1d")
own = [globals()[n] for n in ("TABLE", "first")]
# a handler of the right class
try:
    third = getattr(tools, "conv{}d".format(3))
except AttributeError:
    third = None
