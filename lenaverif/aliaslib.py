"""Binding of spec/Isolation.tla (Split/Zip branch isolation) and spec/Alias.tla (freshness of the
contexts yielded by accumulators) to the real lena objects.

Pure values of the specs are JSON: {"d": [ints], "c": context}; the empty context arrives as [].
"""
import collections
import copy
import json
import random

from .util import exc_name, reach_ids

NONE = -1000


# =============================================================================== model A: isolation
class UserCtx(dict):
    """a user subclass of dict used as a context"""


def as_class(c, cls):
    """the context c (plain dicts / lists) rebuilt with dictionaries of class cls at every level"""
    if cls == "dict" or cls is None:
        return c
    import lena.context
    make = {"Context": lena.context.Context, "OrderedDict": collections.OrderedDict,
            "defaultdict": lambda d: collections.defaultdict(None, d), "UserDict": UserCtx}[cls]

    def conv(x):
        if isinstance(x, dict):
            return make(dict((k, conv(v)) for k, v in x.items()))
        if isinstance(x, list):
            return [conv(v) for v in x]
        return x
    return conv(c)


def plain_ctx(c):
    """a snapshot of a context as plain dicts and lists - made by hand: copy.deepcopy is what is under test"""
    if isinstance(c, dict):
        return dict((k, plain_ctx(v)) for k, v in c.items())
    if isinstance(c, list):
        return [plain_ctx(v) for v in c]
    return c


class Ev(object):
    """A user object with attributes (an "event"): mutable, and hashable by default."""

    def __init__(self, items, time=0.5):
        self.items = items
        self.time = time


EvPair = collections.namedtuple("EvPair", "ev aux")


def flow_value(j, shape="pair", cls="dict"):
    """Isolation!XS(j, shape): every value has its own data object and its own context (if any)."""
    if j % 3 == 1:
        c = {"a": 1, "n": {"b": 1}}
    elif j % 3 == 2:
        c = {}
    else:
        c = {"a": 2}
    c = as_class(c, cls)
    if shape == "pair":
        return ([j], c)
    if shape == "objpair":
        return (Ev([j]), c)
    if shape == "obj":
        return Ev([j])
    if shape == "tuple":
        return (Ev([j]), Ev([0]))
    if shape == "ntuple":
        return EvPair(Ev([j]), Ev([0]))
    raise ValueError(shape)


def holder(value):
    """the mutable part of the data of a value (the data cell of Heap.tla): a list"""
    data = value[0] if _has_context(value) else value
    if isinstance(data, Ev):
        return data.items
    if isinstance(data, tuple):
        return data[0].items
    return data


class _Structural(object):
    """Harness elements compare structurally, as the lena elements do (Sum, Count, UpdateContext, Run, the
    sequences): two branches built from equal elements are == although they are distinct objects."""
    _ignore = ()

    def __eq__(self, other):
        if type(other) is not type(self):
            return NotImplemented
        mine = {k: v for k, v in vars(self).items() if k not in self._ignore}
        theirs = {k: v for k, v in vars(other).items() if k not in self._ignore}
        return mine == theirs

    def __ne__(self, other):
        r = self.__eq__(other)
        return r if r is NotImplemented else not r

    __hash__ = None


class IncEl(_Structural):
    """user element: context[key] += 1 in place"""

    def __init__(self, key):
        self.key = key

    def __call__(self, value):
        data, ctx = value
        ctx[self.key] = ctx.get(self.key, 0) + 1
        return value


class ListAppEl(_Structural):
    """user element: context["l"].append(x) in place (the list is created if absent)"""

    def __init__(self, x):
        self.x = x

    def __call__(self, value):
        value[1].setdefault("l", []).append(self.x)
        return value


class AppEl(_Structural):
    """user element: data.append(x) in place"""

    def __init__(self, x):
        self.x = x

    def __call__(self, value):
        holder(value).append(self.x)         # an in-place change of the data: a list, an attribute of an object
        return value


class Tag(_Structural):
    _ignore = ("b",)       # the branch number is bookkeeping of the harness, not part of the element

    def __init__(self, b):
        self.b = b

    def __call__(self, value):
        return ("B", self.b, value)


class Collector(_Structural):
    """fill/compute element keeping the values themselves; LenaStopFill on attempt stop+1"""

    def __init__(self, stop=None):
        self.stop, self.stored = stop, []

    def fill(self, value):
        import lena.core
        if self.stop is not None and len(self.stored) >= self.stop:
            raise lena.core.LenaStopFill()
        self.stored.append(value)

    def compute(self):
        for v in self.stored:
            yield v


class FRBranch(_Structural):
    """fill/request element: applies the mutators in place, keeps the values, yields them on request"""
    _ignore = ("b",)

    def __init__(self, els, b, stop=None):
        self.els, self.b, self.stored, self.stop, self.nfilled = els, b, [], stop, 0

    def fill(self, value):
        import lena.core
        for el in self.els:
            value = el(value)
        if self.stop is not None and self.nfilled >= self.stop:
            raise lena.core.LenaStopFill()
        self.nfilled += 1
        self.stored.append(value)

    def request(self):
        vals, self.stored = self.stored, []
        for v in vals:
            yield ("B", self.b, v)

    def reset(self):
        self.stored = []


class SrcEl(_Structural):
    _ignore = ("b",)

    def __init__(self, b):
        self.b = b

    def __call__(self):
        yield ("B", self.b, ([-1], {}))
        yield ("B", self.b, ([-2], {}))


def build_mut(mu, shared=None):
    """shared: a dict; stateless elements are then built once and the same object is used in every branch
    (Variable and MakeFilename compare by identity, so only a shared instance makes two branches equal)"""
    if shared is not None and mu["t"] != "cnt":
        key = json.dumps(mu, sort_keys=True)
        if key not in shared:
            shared[key] = build_mut(mu)
        return shared[key]
    import lena.context
    import lena.output
    import lena.variables
    import lena.flow
    t = mu["t"]
    if t == "inc":
        return IncEl(mu["key"])
    if t == "lapp":
        return ListAppEl(mu["x"])
    if t == "app":
        return AppEl(mu["x"])
    if t == "set":
        return lena.context.UpdateContext(mu["key"], mu["x"])
    if t == "setn":
        if mu["ia"]:
            assert (mu["nk"], mu["key"]) == ("output", "filename")
            return lena.output.MakeFilename(mu["s"])
        return lena.context.UpdateContext(mu["nk"] + "." + mu["key"], mu["x"] if mu["s"] == "" else mu["s"])
    if t == "var":
        x = mu["x"]
        return lena.variables.Variable(mu["s"], lambda d: d + [x])
    if t == "vart":
        x = mu["x"]        # a typed Variable: var_context has a sub-dictionary
        return lena.variables.Variable(mu["s"], lambda d: d + [x], type="coordinate", unit="cm")
    if t == "setv":
        return lena.context.UpdateContext("variable.coordinate." + mu["key"], mu["s"])
    if t == "cnt":
        return lena.flow.Count(mu["key"])
    raise ValueError(mu)


def build_branch(b, br, shared=None):
    import lena.core
    import lena.flow
    els = [build_mut(mu, shared) for mu in br["muts"]]
    end = br["end"]
    stop = None if br["stop"] == NONE else br["stop"]
    if end == "seq":
        if shared is not None and len(els) > 1:
            # the same branch written with a nested Sequence
            return lena.core.Sequence(lena.core.Sequence(*els[:1]), *(els[1:] + [Tag(b)]))
        return lena.core.Sequence(*(els + [Tag(b)]))
    if end == "store":
        return lena.core.FillComputeSeq(*(els + [Collector(stop), Tag(b)]))
    if end == "count":
        return lena.core.FillComputeSeq(*(els + [lena.flow.Count(br["name"]), Tag(b)]))
    if end == "fr":
        return FRBranch(els, b, stop)
    if end == "src":
        return lena.core.Source(SrcEl(b))
    raise ValueError(br)


def pure(v):
    """real value (pair or bare data) -> pure value of the spec"""
    data, ctx = (v[0], v[1]) if _has_context(v) else (v, {})
    return {"d": [data] if isinstance(data, int) else list(holder(v)), "c": plain_ctx(ctx)}


def norm_pure(x):
    return {"d": x["d"], "c": {} if x["c"] == [] else x["c"]}


def run_scenario(brs, n, bs, drv, rq, copy_buf=True, share=False, shape="pair", nested=False, cls="dict"):
    """Execute one scenario on the real Split / Zip.  Returns per-branch lists (1-based dict) of
    (snapshot when yielded, the yielded object) plus the source values (as the caller holds them afterwards)."""
    import lena.core
    import lena.flow
    shared = {} if share else None
    branches = [build_branch(b + 1, br, shared) for b, br in enumerate(brs)]
    values = [flow_value(j + 1, shape, cls) for j in range(n)]
    outs = []          # (b, snapshot at yield, object)

    def take(item):
        if not (isinstance(item, tuple) and len(item) == 3 and item[0] == "B"):
            raise ValueError("untagged output %r" % (item,))
        outs.append((item[1], pure(item[2]), item[2]))

    if drv == "run":
        s = lena.core.Split(branches, bufsize=None if bs == NONE else bs, copy_buf=copy_buf)
        for item in s.run(iter(values)):
            take(item)
    elif drv == "fill" and nested:
        # the fill-driven Split as the only branch of an outer Split.run (which hands its buffer through)
        inner = lena.core.Split(branches, copy_buf=copy_buf)
        s = lena.core.Split([inner], bufsize=2)
        for item in s.run(iter(values)):
            take(item)
    elif drv == "fill":
        s = lena.core.Split(branches, copy_buf=copy_buf)
        for v in values:
            s.fill(v)
        for item in s.compute():
            take(item)
    elif drv == "fillreq":
        s = lena.core.Split(branches, copy_buf=copy_buf)
        for v in values:
            s.fill(v)
            if rq:
                for item in s.request():
                    take(item)
        for item in s.request():
            take(item)
    elif drv == "zip":
        z = lena.flow.Zip(branches)

        def take_zipped(gen):
            for tup in gen:
                if not isinstance(tup, tuple) or len(tup) != len(branches):
                    raise ValueError("unexpected Zip output %r" % (tup,))
                for item in tup:
                    take(item)
        if brs[0]["end"] == "fr":
            for v in values:
                z.fill(v)
                if rq:
                    take_zipped(z.request())
            take_zipped(z.request())
        else:
            for v in values:
                z.fill(v)
            take_zipped(z.compute())
    else:
        raise ValueError(drv)
    per = {}
    for b, snap, obj in outs:
        per.setdefault(b, []).append((snap, pure(obj)))
    return per, values


# ---- nested Splits (spec/IsolationNest.tla): a node is a branch (leaf) or {"end": "split", "muts": prefix, "ibs", "sub"}
def is_split(node):
    return node["end"] == "split"


def type_of(node):
    """IsolationNestSem!TypeOf (lena.core.split._get_seq_with_type)"""
    if not is_split(node):
        return {"seq": "sequence", "store": "fc", "count": "fc", "fr": "fr"}[node["end"]]
    ts = set(type_of(c) for c in node["sub"])
    return "fc" if ts == {"fc"} else "fr" if ts == {"fr"} else "sequence"


def leaves_of(nodes):
    out = []
    for n in nodes:
        out.extend(leaves_of(n["sub"]) if is_split(n) else [n])
    return out


def depth_of(node):
    return 1 + max(depth_of(c) for c in node["sub"]) if is_split(node) else 0


def build_node(node, counter, shared=None, wrap=False):
    """the real sequence of a node; leaves are numbered depth first (counter: a one-element list).
    wrap: a nested Split without prefix elements is put into an explicit Sequence / FillComputeSeq
    instead of being passed bare"""
    import lena.core
    if not is_split(node):
        counter[0] += 1
        return build_branch(counter[0], node, shared)
    subs = [build_node(c, counter, shared, wrap) for c in node["sub"]]
    split = lena.core.Split(subs, bufsize=None if node["ibs"] == NONE else node["ibs"])
    pre = [build_mut(mu, shared) for mu in node["muts"]]
    t = type_of(node)
    if t == "fr":
        assert not pre       # FillRequestSeq.fill is not implemented in lena
        return split
    if not pre and not wrap:
        return split
    if t == "fc":
        return lena.core.FillComputeSeq(*(pre + [split]))
    return lena.core.Sequence(*(pre + [split]))


def run_tree(root, n, bs, drv, rq, share=False, shape="pair", cls="dict"):
    """Execute one scenario of IsolationNest on the real Split / Zip: root = the sequences of the outermost
    one.  Returns like run_scenario, per LEAF."""
    import lena.core
    import lena.flow
    shared = {} if share else None
    counter = [0]
    seqs = [build_node(node, counter, shared, wrap=share) for node in root]
    values = [flow_value(j + 1, shape, cls) for j in range(n)]
    outs = []

    def take(item):
        if not (isinstance(item, tuple) and len(item) == 3 and item[0] == "B"):
            raise ValueError("untagged output %r" % (item,))
        outs.append((item[1], pure(item[2]), item[2]))

    def take_zipped(gen):
        for tup in gen:
            if not isinstance(tup, tuple) or len(tup) != len(seqs):
                raise ValueError("unexpected Zip output %r" % (tup,))
            for item in tup:
                take(item)

    if drv == "run":
        s = lena.core.Split(seqs, bufsize=None if bs == NONE else bs)
        for item in s.run(iter(values)):
            take(item)
    elif drv == "fill":
        s = lena.core.Split(seqs)
        for v in values:
            s.fill(v)
        for item in s.compute():
            take(item)
    elif drv == "fillreq":
        s = lena.core.Split(seqs)
        for v in values:
            s.fill(v)
            if rq:
                for item in s.request():
                    take(item)
        for item in s.request():
            take(item)
    elif drv == "zip":
        z = lena.flow.Zip(seqs)
        if type_of(root[0]) == "fr":
            for v in values:
                z.fill(v)
                if rq:
                    take_zipped(z.request())
            take_zipped(z.request())
        else:
            for v in values:
                z.fill(v)
            take_zipped(z.compute())
    else:
        raise ValueError(drv)
    per = {}
    for b, snap, obj in outs:
        per.setdefault(b, []).append((snap, pure(obj)))
    return per, values


def tree_key(nodes):
    def one(n):
        m = "+".join(mu["t"] + (mu["key"] or mu["nk"] or "") for mu in n["muts"])
        if is_split(n):
            return "Split[%s>%s]" % (m, tree_key(n["sub"]))
        return "%s(%s)" % (n["end"], m)
    return "|".join(one(n) for n in nodes)


def tree_size(nodes):
    return sum(1 + len(n["muts"]) + tree_size(n["sub"]) for n in nodes)


def rand_prefix(rnd):
    """prefix elements in front of a nested Split: no Count, no Variable (IsolationNestSem!PrefixOK)"""
    muts = []
    for _ in range(rnd.choice([0, 0, 1, 1, 2])):
        for _try in range(20):
            mu = rand_mut(rnd, "store")
            if mu["t"] not in ("var", "vart", "cnt", "setv"):
                muts.append(mu)
                break
    return muts


def rand_node(rnd, depth, kind):
    """a well-formed node (IsolationNestSem!WF) of type kind: "sequence" | "fc" | "fr" """
    def leaf(end):
        br = rand_branch(rnd, [end])
        br["stop"] = NONE
        return dict(br, ibs=NONE, sub=[])
    if depth == 0 or rnd.random() < 0.35:
        return leaf({"sequence": "seq", "fc": rnd.choice(["store", "count"]), "fr": "fr"}[kind])
    nsub = rnd.randint(1, 3)
    if kind == "sequence":
        kinds = [rnd.choice(["sequence", "sequence", "fr"]) for _ in range(nsub)]
        if "sequence" not in kinds:
            kinds[rnd.randrange(nsub)] = "sequence"
    else:
        kinds = [kind] * nsub
    sub = [rand_node(rnd, depth - 1, k) for k in kinds]
    node = {"muts": [] if kind == "fr" else rand_prefix(rnd), "end": "split", "stop": NONE, "name": "",
            "ibs": rnd.choice([NONE, 1, 2, 3]) if kind == "sequence" else NONE, "sub": sub}
    if type_of(node) != kind:
        # all sequences of a run-type Split turned out fill/request leaves ...: not the kind asked for
        return rand_node(rnd, depth, kind)
    return node


def rand_tree(rnd):
    """a random scenario of nested Splits beyond the exhaustive bounds: depth <= 3, <= 3 sequences per Split"""
    drv = rnd.choice(["run", "run", "run", "fill", "fillreq"])
    nb = rnd.randint(1, 3)
    if drv == "run":
        kinds = [rnd.choice(["sequence", "sequence", "fc", "fr"]) for _ in range(nb)]
        bs, rq = rnd.choice([NONE, 1, 2, 3, 5]), 0
    elif drv == "fill":
        kinds, bs, rq = ["fc"] * nb, NONE, 0
    else:
        kinds, bs, rq = ["fr"] * nb, NONE, rnd.randint(0, 1)
    root = [rand_node(rnd, 3, k) for k in kinds]
    if not any(is_split(n) for n in root):
        j = rnd.randrange(nb)
        for _try in range(50):
            node = rand_node(rnd, 3, kinds[j])
            if is_split(node):
                root[j] = node
                break
    return {"root": root, "N": rnd.randint(0, 6), "bs": bs, "drv": drv, "rq": rq, "shape": "pair",
            "cls": rnd.choice(["dict", "dict", "Context", "OrderedDict", "defaultdict", "UserDict"])}


def brs_key(brs):
    def one(br):
        m = "+".join(mu["t"] + (mu["key"] or mu["nk"] or "") for mu in br["muts"])
        return "%s(%s)" % (br["end"], m)
    return "|".join(one(br) for br in brs)


# ---- random configurations beyond the exhaustive bounds
def rand_mut(rnd, end, shape="pair"):
    M = lambda t, nk, key, x, s, ia: {"t": t, "nk": nk, "key": key, "x": x, "s": s, "ia": ia}
    if shape != "pair":
        return M("app", "", "", rnd.randint(10, 19), "", False)
    t = rnd.choice(["inc", "inc", "app", "lapp", "set", "setn", "mkfn", "var", "vart", "vart", "setv", "setv"]
                   + (["cnt"] if end == "seq" else []))
    if t == "vart":
        return M("vart", "variable", "name", rnd.randint(40, 49), rnd.choice(["x", "y"]), False)
    if t == "setv":
        return M("setv", "variable", rnd.choice(["unit", "range"]), 0, rnd.choice(["mm", "m"]), False)
    if t == "inc":
        return M("inc", "", rnd.choice(["hits", "a", "k"]), 0, "", False)
    if t == "app":
        return M("app", "", "", rnd.randint(10, 19), "", False)
    if t == "lapp":
        return M("lapp", "", "l", rnd.randint(50, 59), "", False)
    if t == "set":
        return M("set", "", rnd.choice(["k", "a", "z"]), rnd.randint(20, 29), "", False)
    if t == "setn":
        return M("setn", "n", rnd.choice(["b", "e"]), rnd.randint(30, 39), "", False)
    if t == "mkfn":
        return M("setn", "output", "filename", 0, rnd.choice(["A", "B", "C"]), True)
    if t == "var":
        return M("var", "variable", "name", rnd.randint(40, 49), rnd.choice(["x", "y"]), False)
    return M("cnt", "", rnd.choice(["cnt", "cnt2"]), 0, "", False)


def rand_branch(rnd, ends, shape="pair"):
    end = rnd.choice(ends)
    muts = []
    if end != "src":
        seen = set()
        for _ in range(rnd.randint(0, 3)):
            mu = rand_mut(rnd, end, shape)
            cls = "var" if mu["t"] == "vart" else mu["t"]
            if cls in ("var", "cnt") and cls in seen:
                continue          # one Variable / one Count per branch (composition belongs to C14)
            seen.add(cls)
            muts.append(mu)
        # a write below context.variable comes after the Variable of the branch (what a Variable does with an
        # existing context.variable is composition: C14)
        first = next((i for i, m in enumerate(muts) if m["t"] in ("var", "vart")), None)
        if first is not None:
            early = [m for m in muts[:first] if m["t"] == "setv"]
            muts = [m for m in muts[:first] if m["t"] != "setv"] + [muts[first]] + early + muts[first + 1:]
    stop = NONE
    if end in ("store", "fr") and rnd.random() < 0.3:
        stop = rnd.randint(0, 4)
    return {"muts": muts, "end": end, "stop": stop, "name": rnd.choice(["c1", "c2"]) if end == "count" else ""}


def with_repeats(rnd, brs):
    """Some branches occur twice or three times (equal but distinct) at random positions."""
    if brs and rnd.random() < 0.5:
        for _ in range(rnd.randint(1, 2)):
            src = copy.deepcopy(rnd.choice(brs))
            pos = rnd.choice([0, len(brs) // 2, len(brs)])
            brs.insert(pos, src)
    return brs[:6]


def rand_scenario(rnd):
    sc = _rand_scenario(rnd)
    sc["brs"] = with_repeats(rnd, sc["brs"])
    return sc


def _rand_scenario(rnd):
    shape = rnd.choice(["pair", "pair", "pair", "objpair", "obj", "tuple", "ntuple"])
    sc = _rand_scenario_of(rnd, shape)
    sc["shape"] = shape
    sc["cls"] = rnd.choice(["dict", "dict", "Context", "Context", "OrderedDict", "defaultdict", "UserDict"]) \
        if shape == "pair" else "dict"
    return sc


def _rand_scenario_of(rnd, shape):
    drv = rnd.choice(["run", "run", "run", "fill", "fill", "fillreq", "zip"])
    nb = rnd.randint(1, 5)
    rb = lambda r, ends: rand_branch(r, ends, shape)       # noqa
    if drv == "run":
        brs = [rb(rnd, ["seq", "seq", "store", "count", "fr", "src"]) for _ in range(nb)]
        bs = rnd.choice([NONE, 1, 2, 3, 5])
        rq = 0
    elif drv == "fill":
        brs = [rb(rnd, ["store", "count"]) for _ in range(nb)]
        for br in brs:
            br["stop"] = NONE
        bs, rq = 1, 0
    elif drv == "fillreq":
        brs = [rb(rnd, ["fr"]) for _ in range(nb)]
        for br in brs:
            br["stop"] = NONE
        bs, rq = 1, rnd.randint(0, 1)
    else:
        end = rnd.choice(["store", "count", "fr"])
        brs = [rb(rnd, [end]) for _ in range(nb)]
        for br in brs:
            br["stop"] = NONE
        bs, rq = 1, (rnd.randint(0, 1) if end == "fr" else 0)
    return {"brs": brs, "N": rnd.randint(0, 7), "bs": bs, "drv": drv, "rq": rq}


# =============================================================================== model B: aliasing
class Acc(object):
    """One real accumulator for the Alias model: how to build it, the data payload of a fill, the keys it
    adds itself to the yielded context, the spec kind it follows, compute or request."""

    def __init__(self, name, make, data, own=(), kind="plain", method="compute", snapshot=True, nres=1, typed=False):
        self.name, self.make, self.data, self.own = name, make, data, set(own)
        self.kind, self.method, self.snapshot, self.nres = kind, method, snapshot, nres
        # typed: the filled contexts carry a typed context.variable (the element then composes variables)
        self.typed = typed

    def build(self):
        """-> (element, the configuration objects the caller passed in and keeps: name -> object)"""
        made = self.make()
        return made if isinstance(made, tuple) else (made, {})


TYPED_VARIABLE = {"name": "p", "type": "particle", "particle": {"name": "p"}}


def sib(seq, getter, edges, typed=True):
    """SplitIntoBins over seq(); the Variable (typed: its var_context has a sub-dictionary) and the edges are
    objects of the caller: returned as the configuration to be watched"""
    import lena.structures
    import lena.variables
    var = lena.variables.Variable("v", getter, type="coordinate", unit="cm") if typed else \
        lena.variables.Variable("v", getter)
    el = lena.structures.SplitIntoBins(seq(), var, edges)
    return el, {"arg_var.var_context": var.var_context, "edges": edges}


def hist(edges, **kw):
    import lena.structures
    return lena.structures.Histogram(edges, **kw), dict({"edges": edges}, **kw)


def accumulators():
    import lena.math
    import lena.flow
    import lena.structures
    import lena.variables
    import lena.core
    accs = [
        Acc("Sum", lambda: lena.math.Sum(), lambda j: 1),
        Acc("DSum", lambda: lena.math.DSum(), lambda j: 0.5),
        Acc("Mean", lambda: lena.math.Mean(pass_on_empty=True), lambda j: 1),
        Acc("Mean(DSum)", lambda: lena.math.Mean(lena.math.DSum(), pass_on_empty=True), lambda j: 1.5),
        Acc("VarianceMeanCount", lambda: lena.math.VarianceMeanCount(corrected=False, pass_on_empty=True), lambda j: j),
        Acc("Vectorize(Sum)", lambda: lena.math.Vectorize(lena.math.Sum(), dim=2), lambda j: (1, 2)),
        Acc("Histogram", lambda: hist([0, 1, 2]), lambda j: j % 2),
        Acc("Histogram2d", lambda: hist([[0, 1, 2], [0, 2]]), lambda j: (j % 2, 1)),
        Acc("Graph", lambda: lena.structures.Graph(), lambda j: (j, 1), own=("scale", "dim")),
        Acc("SplitIntoBins(Sum)", lambda: sib(lena.math.Sum, lambda d: d, [0, 1, 2], typed=False),
            lambda j: j % 2, own=("variable",)),
        # the binning Variable is typed and the filled contexts carry a typed context.variable of their own
        Acc("SplitIntoBins(Sum)[typed]", lambda: sib(lena.math.Sum, lambda d: d, [0, 1, 2]),
            lambda j: j % 2, own=("variable",), typed=True),
        Acc("Count", lambda: lena.flow.Count(), lambda j: j, own=("count",), kind="count"),
        Acc("FillCompute(Sum)", lambda: lena.core.FillCompute(lena.math.Sum()), lambda j: 1),
        Acc("FillComputeSeq(Mean)", lambda: lena.core.FillComputeSeq(lena.math.Mean(pass_on_empty=True)), lambda j: 2),
    ]
    # several results per compute(): every result carries its own copy of the context (kind Plain2 of Alias.tla)
    V = lena.variables.Variable
    two_sums = lambda: lena.core.Split([lena.math.Sum(), lena.math.Sum()])
    accs += [
        Acc("SplitIntoBins(Split(Sum,Count))",
            lambda: sib(lambda: lena.core.Split([lena.math.Sum(), lena.flow.Count()]), lambda d: d, [0, 1, 2]),
            lambda j: j % 2, own=("variable", "count"), nres=2, typed=True),
        Acc("SplitIntoBins2d(Split(Sum,Count))",
            lambda: lena.structures.SplitIntoBins(lena.core.Split([lena.math.Sum(), lena.flow.Count()]),
                                                  V("v", lambda d: (d, d)), [[0, 1, 2], [0, 1, 2]]),
            lambda j: j % 2, own=("variable", "count"), nres=2),
        Acc("Split(Sum,Count)", lambda: lena.core.Split([lena.math.Sum(), lena.flow.Count()]),
            lambda j: 1, own=("count",), nres=2),
        Acc("Mean(Split(Sum,Sum))", lambda: lena.math.Mean(two_sums(), pass_on_empty=True), lambda j: 1, nres=2),
        Acc("Vectorize(Mean(Split(Sum,Sum)))",
            lambda: lena.math.Vectorize(lena.math.Mean(two_sums(), pass_on_empty=True), dim=2), lambda j: (1, 2), nres=2),
        Acc("FillCompute(Split(Sum,Sum))", lambda: lena.core.FillCompute(two_sums()), lambda j: 1, nres=2),
    ]
    # identity facts only (number of results varies / what is yielded belongs to other properties)
    accs += [
        Acc("SplitIntoBins(Split(Sum,Mean,Count))",
            lambda: lena.structures.SplitIntoBins(
                lena.core.Split([lena.math.Sum(), lena.math.Mean(pass_on_empty=True), lena.flow.Count()]),
                V("v", lambda d: d), [0, 1, 2]),
            lambda j: j % 2, own=("variable",), snapshot=False),
        Acc("Zip(Split(Sum,Sum),Split(Sum,Count))",
            lambda: lena.flow.Zip([two_sums(), lena.core.Split([lena.math.Sum(), lena.flow.Count()])]),
            lambda j: 1, snapshot=False),
        Acc("FillRequest(Split(Sum,Sum))",
            lambda: lena.core.FillRequest(two_sums(), reset=False, buffer_input=True),
            lambda j: 1, method="request", snapshot=False),
        Acc("FillRequest(SplitIntoBins(Split(Sum,Count)),bufsize=2)",
            lambda: lena.core.FillRequest(
                lena.structures.SplitIntoBins(lena.core.Split([lena.math.Sum(), lena.flow.Count()]),
                                              V("v", lambda d: d), [0, 1, 2]),
                reset=False, bufsize=2, buffer_input=True),
            lambda j: j % 2, method="request", snapshot=False),
    ]
    # request()-type accumulators: what they yield is not modelled (C16), only the identity facts are used
    accs += [
        Acc("FillRequest(Sum)", lambda: lena.core.FillRequest(lena.math.Sum(), reset=True, buffer_input=True),
            lambda j: 1, method="request", snapshot=False),
        Acc("FillRequest(Histogram,bufsize=2)",
            lambda: lena.core.FillRequest(lena.structures.Histogram([0, 1, 2]), reset=False, bufsize=2, buffer_input=True),
            lambda j: j % 2, method="request", snapshot=False),
        Acc("Zip(Sum,Count)", lambda: lena.flow.Zip([lena.math.Sum(), lena.flow.Count()]),
            lambda j: 1, own=("count", "zip"), snapshot=False),
        Acc("Split(Sum,Mean)", lambda: lena.core.Split([lena.math.Sum(), lena.math.Mean(pass_on_empty=True)]),
            lambda j: 1, snapshot=False),
    ]
    return accs


def _has_context(v):
    return isinstance(v, tuple) and len(v) == 2 and isinstance(v[1], dict)


def apply_mut(ctx, mu):
    """Alias!MutCtx on a real dict (what a downstream element would do in place)."""
    t = mu["t"]
    if t == "inc":
        ctx[mu["key"]] = ctx.get(mu["key"], 0) + 1
    elif t == "lapp":
        ctx.setdefault("l", []).append(mu["x"])
    elif t == "set":
        ctx[mu["key"]] = mu["x"]
    elif t == "setn":
        val = mu["x"] if mu["s"] == "" else mu["s"]
        sub = ctx.get(mu["nk"])
        if isinstance(sub, dict):
            if not (mu["ia"] and mu["key"] in sub):
                sub[mu["key"]] = val
        else:
            ctx[mu["nk"]] = {mu["key"]: val}
    else:
        raise ValueError(mu)


def drop(c, own):
    return {k: v for k, v in c.items() if k not in own}


def py_ctx(c):
    return {} if c == [] else copy.deepcopy(c)


class AliasRun(object):
    """A real accumulator driven along a behaviour of Alias.tla."""

    def __init__(self, acc, cls="dict"):
        self.acc, self.cls = acc, cls
        self.el, self.cfg = acc.build()
        self.cfg0 = plain_ctx(self.cfg)
        self.src = []       # values as the producer holds them
        self.res = []       # contexts as the consumer holds them
        self.nfill = 0

    def config_changed(self):
        """None, or the configuration objects of the caller that no longer have their initial value"""
        now = plain_ctx(self.cfg)
        return None if now == self.cfg0 else {"initially": self.cfg0, "now": now}

    def fill(self, c):
        self.nfill += 1
        c = py_ctx(c)
        if self.acc.typed:
            c["variable"] = copy.deepcopy(TYPED_VARIABLE)
        v = (self.acc.data(self.nfill), as_class(c, self.cls))
        self.src.append(v)
        self.el.fill(v)

    def compute(self):
        """Returns the contexts yielded (a bare value counts as a new empty context)."""
        got = []
        for item in getattr(self.el, self.acc.method)():
            got.append(item[1] if _has_context(item) else {})
        self.res.extend(got)
        return got

    def reset(self):
        self.el.reset()
        self.nfill = 0

    def snapshots(self):
        own = self.acc.own
        return ([drop(plain_ctx(v[1]), own) for v in self.src],
                [drop(plain_ctx(c), own) for c in self.res])


def yielded_contexts(item):
    """The contexts one yielded item carries: its own, and - for a histogram whose bins hold the results
    of inner accumulators (SplitIntoBins) - the contexts of the bin contents."""
    out = []
    if _has_context(item):
        out.append(item[1])
    data = item[0] if _has_context(item) else item
    bins = getattr(data, "bins", None)
    if isinstance(bins, list):
        stack = [bins]
        while stack:
            x = stack.pop()
            if isinstance(x, list):
                stack.extend(reversed(x))
            elif _has_context(x):
                out.append(x[1])
    return out


def ctx_ids(c, keep):
    """renumberable ids of the dicts/lists reachable from a context; objects are kept alive in *keep*"""
    acc = reach_ids(c)
    keep.extend(acc.values())
    return sorted(acc)


def rand_ctx(rnd):
    c = {"a": rnd.randint(0, 3)}
    if rnd.random() < 0.6:
        c["n"] = {"b": rnd.randint(0, 3)}
    if rnd.random() < 0.3:
        c["output"] = {"filename": "f", "plot": {"deep": [1, 2]}}
    if rnd.random() < 0.3:
        c["l"] = [1, {"x": 1}]
    return c
