"""Harness helpers for X02: lena.math (meshes, utils, vector3) and the histogram helper functions.

Spec side (spec/MathFnsSem.tla, MathFns.tla, Vector3.tla): numbers are exact rationals [num, den], Python containers
are tagged trees {t: n|s|l|t, v, s, xs}, angles are rational (cos, sin) pairs.  Here they become Python objects;
results of ring operations on ints / dyadic floats are compared exactly, results the documentation calls
approximate (meshes with a non-dyadic step, square roots, angles) within 1e-9.
"""
import copy
import math
from fractions import Fraction

from .histlib import LIMIT, watchdog
from .hist12lib import fr, nested, Skip, rat_or_skip, to_rat
from .util import exc_name

RTOL = 1e-9
NONE = -1000
MAGS = [0, 0, -30, 40, -300, 300, -990, 990, 7]          # exponents of two


# --------------------------------------------------------------------------- numbers and trees
def num(p, floats=False, mul=1):
    x = Fraction(p[0], p[1])
    if mul != 1:
        return float(x) * mul
    if x.denominator == 1 and not floats:
        return int(x)
    return float(x)


def dyadic(p):
    d = p[1]
    return d > 0 and d & (d - 1) == 0


def approx(x, want, unit=1.0):
    if isinstance(x, bool) or not isinstance(x, (int, float)):
        return False
    return abs(x - want) <= RTOL * max(abs(want), unit)


def seq_ok(got, want_rats, exact, unit, mul=1, floats=False):
    """a list of numbers against rationals: exactly where every value is dyadic, else within 1e-9"""
    if not isinstance(got, list) or len(got) != len(want_rats):
        return False
    for g, p in zip(got, want_rats):
        w = num(p, floats, mul)
        if exact:
            if g != w:
                return False
        elif not approx(g, w, unit):
            return False
    return True


def to_py(node, floats=False):
    t = node["t"]
    if t == "n":
        return num(node["v"], floats)
    if t == "s":
        return None if node["s"] == "None" else node["s"]
    xs = [to_py(x, floats) for x in node["xs"]]
    return xs if t == "l" else tuple(xs)


def to_tree(obj):
    """Python object -> tree of the trace spec (numbers as small rationals)."""
    if isinstance(obj, list):
        return {"t": "l", "v": [0, 0], "s": "", "xs": [to_tree(x) for x in obj]}
    if isinstance(obj, tuple):
        return {"t": "t", "v": [0, 0], "s": "", "xs": [to_tree(x) for x in obj]}
    if isinstance(obj, str):
        return {"t": "s", "v": [0, 0], "s": obj, "xs": []}
    if obj is None:
        return {"t": "s", "v": [0, 0], "s": "None", "xs": []}
    return {"t": "n", "v": rat_or_skip(obj), "s": "", "xs": []}


FUNCS = {"neg": lambda x: -x, "dbl": lambda x: 2 * x, "inc": lambda x: x + 1, "id": lambda x: x, "len": len,
         "add": lambda x, y: x + y, "sub": lambda x, y: x - y}
NAMES = ["E_gamma", "theta", "z"]


def outcome(call):
    """(ok, value or exception name)"""
    try:
        with watchdog(LIMIT):
            return True, call()
    except Exception as exc:   # noqa
        return False, exc_name(exc)


def expect(report, key, detail, res, ok, val, compare=None):
    """res: the spec's [ok, exc, v]; (ok, val): what the code did"""
    if res["ok"] != ok or (not ok and val != res["exc"]):
        report(key + (":raised:" + str(val) if not ok else ":no-" + res["exc"]), dict(detail, observed=repr(val)))
        return False
    if ok and compare is not None and not compare(val):
        report(key + ":value", dict(detail, observed=repr(val)[:500]))
        return False
    return True


# --------------------------------------------------------------------------- S2C: one case of MathFns.tla
def replay_case(ctx, rec, k, report, state):
    import lena.math as M
    import lena.structures as S
    c, res = rec["c"], rec["res"]
    fn = c["fn"]
    detail = {"case": c, "expected": res}
    floats = (k % 3 == 1)
    e = MAGS[k % len(MAGS)]
    mul = 2.0 ** e if e else 1
    if fn == "mesh":
        lo, hi, n = c["lo"], c["hi"], c["n"]
        want = res["v"]
        exact = all(dyadic(p) for p in want)
        unit = max(abs(num(lo, mul=mul)), abs(num(hi, mul=mul)))
        a, b = num(lo, floats, mul), num(hi, floats, mul)
        ok, val = outcome(lambda: M.mesh((a, b) if k % 2 else [a, b], n))
        key = "mesh:n=%d:%s" % (n, "exact" if exact else "approx")
        good = ok and isinstance(val, list) and len(val) == n + 1 and val[0] == a and val[-1] == b \
            and seq_ok(val, want, exact, unit, mul, floats)
        if not good:
            report(key + (":mag" if e else ""), dict(detail, observed=repr(val), magnitude=e))
        # several dimensions: "a list of ranges in corresponding dimensions"
        prev = state.get("mesh")
        state["mesh"] = (a, b, n, want, exact, unit, mul, floats)
        if prev is not None:
            pa, pb, pn, pw, pex, pu, pm, pf = prev
            ok, val = outcome(lambda: M.mesh(((pa, pb), (a, b)), (pn, n)))
            if not (ok and isinstance(val, list) and len(val) == 2 and seq_ok(val[0], pw, pex, pu, pm, pf)
                    and seq_ok(val[1], want, exact, unit, mul, floats)):
                report("mesh:2-dimensional", dict(detail, observed=repr(val), first_axis=repr((pa, pb, pn))))
    elif fn == "refine":
        arr = [num(p, floats, mul) for p in c["arr"]]
        want = res["v"]
        exact = all(dyadic(p) for p in want)
        unit = max(abs(x) for x in arr)
        arg = tuple(arr) if k % 4 == 3 else list(arr)
        ok, val = outcome(lambda: M.refine_mesh(arg, c["r"]))
        good = ok and seq_ok(val, want, exact, unit, mul, floats) and list(arg) == arr \
            and all(val[j * c["r"]] == arr[j] for j in range(len(arr)))            # old points stay
        if not good:
            report("refine_mesh:r=%d:npoints=%d" % (c["r"], len(arr)), dict(detail, observed=repr(val), magnitude=e))
    elif fn == "flatten":
        obj = to_py(c["a"], floats)
        ok, val = outcome(lambda: M.flatten(obj))
        if ok:
            ok, val = outcome(lambda: (hasattr(val, "__next__"), list(val)))
        want = [to_py(x, floats) for x in res["v"]]
        if not ok or not val[0] or val[1] != want:
            report("flatten:depth-first", dict(detail, observed=repr(val)))
    elif fn in ("md_map", "md_map2"):
        a = to_py(c["a"], floats)
        snap = copy.deepcopy(a)
        if fn == "md_map":
            ok, val = outcome(lambda: M.md_map(FUNCS[c["F"]], a))
            args_same = (a == snap)
        else:
            b = to_py(c["b"], floats)
            snapb = copy.deepcopy(b)
            ok, val = outcome(lambda: M.md_map(FUNCS[c["F"]], a, b))
            args_same = (a == snap and b == snapb)
        want = to_py(res["v"], floats) if res["ok"] else None
        good = expect(report, "%s:%s" % (fn, c["F"]), detail, res, ok, val, lambda v: v == want and isinstance(v, list))
        if good and not args_same:
            report("%s:argument-modified" % fn, detail)
    elif fn == "clip":
        a = num(c["a"], floats)
        iv = to_py(c["iv"], floats)
        ok, val = outcome(lambda: M.clip(a, iv))
        expect(report, "clip", detail, res, ok, val, lambda v: v == num(res["v"]["v"]))
    elif fn == "isclose":
        replay_isclose(M, c, res, k, report, detail)
    elif fn == "isclose_bad":
        obj = to_py(c["a"])
        ok, val = outcome(lambda: M.isclose(obj, copy.deepcopy(obj)))
        expect(report, "isclose:unsupported-type", detail, res, ok, val)
    elif fn == "check_edges":
        obj = to_py(c["e"], floats)
        ok, val = outcome(lambda: S.check_edges_increasing(obj))
        expect(report, "check_edges_increasing", detail, res, ok, val, lambda v: v is None)
    elif fn == "get_bin_edges":
        E, cell = c["E"], c["cell"]
        dim = len(E)
        want = [tuple(p) for p in res["v"]]
        if dim == 1:
            edges = tuple(E[0]) if k % 2 else list(E[0])
            idx = [cell[0], [cell[0]], (cell[0],)][k % 3]
            ok, val = outcome(lambda: S.get_bin_edges(idx, edges))
            good = ok and tuple(val) == want[0]
        else:
            edges = [list(e) for e in E] if k % 2 else tuple(tuple(e) for e in E)
            idx = tuple(cell) if k % 3 else list(cell)
            ok, val = outcome(lambda: S.get_bin_edges(idx, edges))
            good = ok and [tuple(p) for p in val] == want
        if not good:
            report("get_bin_edges:dim=%d" % dim, dict(detail, observed=repr(val)))
    elif fn == "get_bin_on_index":
        bins = copy.deepcopy(c["bins"])
        idx = c["idx"]
        arg = idx[0] if (len(idx) == 1 and k % 2) else (tuple(idx) if k % 3 else list(idx))
        ok, val = outcome(lambda: S.get_bin_on_index(arg, bins))
        expect(report, "get_bin_on_index:dim=%d:len=%d" % (len(c["E"]), len(idx)), detail, res, ok, val,
               lambda v: v == res["v"])
    elif fn == "get_example_bin":
        E = c["E"]
        bins = copy.deepcopy(c["bins"])
        if c["hist"]:
            edges = E[0] if len(E) == 1 else E
            ok, val = outcome(lambda: S.get_example_bin(S.histogram(edges, bins=bins)))
        else:
            ok, val = outcome(lambda: S.get_example_bin(bins))
        if not ok or val != res["v"]:
            report("get_example_bin:%s" % ("histogram" if c["hist"] else "bins"), dict(detail, observed=repr(val)))
    elif fn == "unify_1_md":
        E = c["E"]
        conv = tuple if c["tuple"] else list
        edges = conv(E[0]) if len(E) == 1 else conv(conv(e) for e in E)
        bins = [0]
        ok, val = outcome(lambda: S.unify_1_md(bins, edges))
        good = ok and isinstance(val, tuple) and len(val) == 2 and val[0] is bins \
            and [list(e) for e in val[1]] == res["v"] and len(val[1]) == len(E)
        if not good:
            report("unify_1_md:dim=%d" % len(E), dict(detail, observed=repr(val)))
    elif fn == "init_bins":
        E = c["E"]
        edges = E[0] if len(E) == 1 else (E if k % 2 else tuple(tuple(e) for e in E))
        v = c["val"]
        ok, val = outcome(lambda: S.init_bins(edges) if v == 0 and k % 2 else S.init_bins(edges, v))
        if not ok or val != res["v"]:
            report("init_bins:dim=%d" % len(E), dict(detail, observed=repr(val)))
        # mutable initial value: "use deepcopy = True (or the content of cells will be identical)"
        ok, val = outcome(lambda: S.init_bins(edges, [7], deepcopy=True))
        want = nested(res["v"], len(E), lambda _x: [7])
        cells = flat_cells(val, len(E)) if ok else []
        if not ok or val != want or len(set(id(x) for x in cells)) != len(cells):
            report("init_bins:deepcopy:dim=%d" % len(E), dict(detail, observed=repr(val)))
    elif fn == "cell_to_string":
        replay_cell_to_string(S, c, res, k, report, detail)
    elif fn == "make_hist_context":
        E = c["E"]
        hist = S.histogram(E[0] if len(E) == 1 else E)
        want = {"dim": res["v"]["dim"], "nbins": res["v"]["nbins"], "ranges": [tuple(r) for r in res["v"]["ranges"]]}
        for ctxt in ({}, {"a": {"b": [1, 2]}}, {"histogram": {"old": 1}, "x": 1}):
            snap = copy.deepcopy(ctxt)
            ok, val = outcome(lambda: S.make_hist_context(hist, ctxt))
            exp = copy.deepcopy(snap)
            exp["histogram"] = want
            good = ok and val == exp and ctxt == snap and val is not ctxt \
                and ("a" not in ctxt or val["a"] is not ctxt["a"])
            if not good:
                report("make_hist_context:dim=%d" % len(E), dict(detail, observed=repr(val), context=repr(snap)))


def flat_cells(b, depth):
    if depth == 0:
        return [b]
    out = []
    for x in b:
        out.extend(flat_cells(x, depth - 1))
    return out


def wrap(shape, v, second):
    n1, n2 = 1, -2.5
    if shape == "num":
        return v
    if shape == "list":
        return [n1, v]
    if shape == "tuple-list":
        return (v, n2) if second else [v, n2]
    if shape == "nested":
        return [(v,), [n1, n2]]
    return (n2, [n1, (n2, v)])


def replay_isclose(M, c, res, k, report, detail):
    x, pert, tol = c["x"], c["pert"], c["tol"]
    for mi in range(3):
        e = MAGS[(k + 3 * mi) % len(MAGS)]
        m = 2.0 ** e
        X = x * m if e else x
        if pert["kind"] == "none":
            Y = X
        elif pert["kind"] == "grid":
            Y = (x + float(fr(pert["amt"]))) * m
        else:
            eps = float(fr(tol["rel"])) if tol["kind"] != "default" else 1e-9
            Y = x * m * (1 - float(fr(pert["amt"])) * eps)
        a, b = wrap(c["shape"], X, False), wrap(c["shape"], Y, True)
        if c["swap"]:
            a, b = b, a
        if tol["kind"] == "default":
            call = lambda: M.isclose(a, b)
        else:
            rt, at = float(fr(tol["rel"])), float(fr(tol["abs"])) * m
            call = [lambda: M.isclose(a, b, rel_tol=rt, abs_tol=at), lambda: M.isclose(a, b, rt, at),
                    lambda: M.isclose(a, b, abs_tol=at, rel_tol=rt)][(k + mi) % 3]
        ok, val = outcome(call)
        if not ok or val is not res["v"]:
            mag = "unit" if e == 0 else ("tiny" if e < 0 else "huge")
            report("isclose:tolerance=%s:%s:%s:%s%s" % (tol["kind"], pert["kind"], c["shape"], mag, ":swapped" if c["swap"] else ""),
                   dict(detail, a=repr(a), b=repr(b), observed=repr(val), magnitude=e))
            return


def replay_cell_to_string(S, c, res, k, report, detail):
    E, cell, mode = c["E"], c["cell"], c["mode"]
    dim = len(E)
    pairs = tuple((E[d][cell[d]], E[d][cell[d] + 1]) for d in range(dim))
    fmt, join = [("{}_lte_{}_lt_{}", "_"), ("{}<={}<{}", " & "), ("[{0};{2}) {1}", ", ")][k % 3]
    kwargs = {}
    if k % 3:
        kwargs = {"coord_fmt": fmt, "coord_join": join}
    if c["reverse"] or k % 2:
        kwargs["reverse"] = c["reverse"]
    names = NAMES[:dim]
    if mode == "names":
        kwargs["coord_names"] = list(names) if k % 2 else tuple(names)
    elif mode == "var_context":
        kwargs["var_context"] = {"name": names[0]} if dim == 1 else {"combine": [{"name": nm, "x": 1} for nm in names]}
    elif mode == "short":
        kwargs["coord_names"] = names[:dim - 1]
    elif mode == "long":
        kwargs["coord_names"] = names + ["extra"]
    ok, val = outcome(lambda: S.cell_to_string(pairs, **kwargs))
    want = None
    if res["ok"]:
        pieces = []
        for pc in res["v"]:
            nm = "coord%d" % pc["name"][1] if pc["name"][0] == "coord" else names[pc["name"][1]]
            pieces.append(fmt.format(pc["lo"], nm, pc["hi"]))
        want = join.join(pieces)
    expect(report, "cell_to_string:%s:dim=%d%s" % (mode, dim, ":reverse" if c["reverse"] else ""), detail, res, ok, val,
           lambda v: v == want)


# --------------------------------------------------------------------------- S2C: vector3
def vec(V3, p, floats=False):
    return V3(*[num(x, floats) for x in p])


def comps_ok(v, want, exact, unit=1.0):
    try:
        got = [v[0], v[1], v[2]]
    except Exception:   # noqa
        return False
    for g, p in zip(got, want):
        w = float(Fraction(p[0], p[1]))
        if exact:
            if g != w:
                return False
        elif not approx(g, w, unit):
            return False
    return True


def angle_of(pair):
    return math.atan2(float(fr(pair[1])), float(fr(pair[0])))


def ang_close(x, want, period=None):
    d = x - want
    if period:
        d = (d + period / 2) % period - period / 2
    return abs(d) <= 1e-7


def replay_vector(ctx, rec, k, report):
    from lena.math import vector3 as V3
    import lena.math as M
    import lena.core
    floats = (k % 3 == 1)
    v = vec(V3, rec["start"], floats)
    # exact: every component so far is an int or a dyadic float obtained by ring operations
    exact_state = all(dyadic(p) for p in rec["start"])
    for j, op in enumerate(rec["ops"]):
        name = op["op"]
        detail = {"start": rec["start"], "ops": rec["ops"][:j + 1]}
        before = [v[0], v[1], v[2]]
        unit = max(1.0, max(abs(x) for x in before))
        if name in ("setr", "setrho", "setphi", "settheta"):
            exact_state = False
        elif name == "setcoord":
            exact_state = exact_state and dyadic(op["val"])
        try:
            with watchdog(LIMIT):
                if name == "algebra":
                    b = vec(V3, op["b"], floats)
                    bsnap = [b[0], b[1], b[2]]
                    s = num(op["s"], floats)
                    ex = exact_state and all(dyadic(p) for p in op["b"]) and dyadic(op["s"])
                    checks = [("add", v + b, op["add"], ex), ("radd", b + v, op["radd"], ex),
                              ("sub", v - b, op["sub"], ex), ("rmul", s * v, op["mul"], ex),
                              ("mul", v * s, op["mul"], ex), ("neg", -v, op["neg"], ex),
                              ("cross", v.cross(b), op["cross"], ex)]
                    if s != 0:
                        checks.append(("div", v / s, op["div"], ex and op["s"][0] in (1, -1)))
                    for what, got, want, exact in checks:
                        if not isinstance(got, V3) or got is v or got is b or not comps_ok(got, want, exact, unit):
                            report("vector3:%s" % what, dict(detail, observed=repr(got)))
                    scal = [("dot", v.dot(b), op["dot"]), ("getr2", v.getr2(), op["r2"]), ("rho2", v.rho2, op["rho2"])]
                    for what, got, want in scal:
                        if (got != float(fr(want))) if ex else not approx(got, float(fr(want)), unit * unit):
                            report("vector3:%s" % what, dict(detail, observed=repr(got)))
                    eq_decidable = exact_state or not op["eq"]
                    if (eq_decidable and ((v == b) is not op["eq"] or (v != b) is op["eq"])) \
                            or (v == V3(*before)) is not True or (v != V3(*before)) is not False:
                        report("vector3:eq-ne", detail)
                    # "vector3 is non-zero if its magnitude (r) is not 0"
                    # (after inexact float operations an exact zero of the model may be 1e-16 in the code: undecidable)
                    if (exact_state or op["nonzero"]) and bool(v) is not op["nonzero"]:
                        report("vector3:truth-value:%s" % ("zero" if not op["nonzero"] else "nonzero"),
                               dict(detail, observed=bool(v)))
                    for cmp_name, cmp in (("<", lambda: v < b), ("<=", lambda: v <= b), (">", lambda: v > b), (">=", lambda: v >= b)):
                        ok, val = outcome(cmp)
                        if ok or val != "LenaTypeError":
                            report("vector3:ordering-comparison:%s" % cmp_name, dict(detail, observed=repr(val)))
                    if len(v) != 3 or list(v) != before or [v.x, v.y, v.z] != before or [v.getx(), v.gety(), v.getz()] != before:
                        report("vector3:container", detail)
                    if [b[0], b[1], b[2]] != bsnap:
                        report("vector3:algebra:operand-modified", detail)
                elif name == "metric":
                    got = [("r", v.r, float(fr(op["r"]))), ("rho", v.rho, float(fr(op["rho"]))),
                           ("costheta", v.getcostheta(), float(fr(op["costheta"])))]
                    for what, g, w in got:
                        if not approx(g, w, 1e-3):
                            report("vector3:%s" % what, dict(detail, observed=repr(g)))
                    nv = v.norm()
                    if not isinstance(nv, V3) or nv is v or not comps_ok(nv, op["norm"], False, 1.0):
                        report("vector3:norm", dict(detail, observed=repr(nv)))
                    phi = angle_of(op["phi"]) % (2 * math.pi)
                    # (for x = y = 0 the azimuth is arbitrary)
                    if not (0 <= v.phi < 2 * math.pi + 1e-12) or (float(fr(op["rho"])) != 0 and not ang_close(v.phi, phi, 2 * math.pi)):
                        report("vector3:phi", dict(detail, observed=repr(v.phi), expected=phi))
                    elif v[1] == 0 and v[0] > 0 and v.phi != 0:
                        # "0 <= Phi < 2 pi": the positive x axis is 0, not 2 pi
                        report("vector3:phi:positive-x-axis", dict(detail, observed=repr(v.phi)))
                    th = angle_of(op["theta"])
                    if not ang_close(v.theta, th) or not (0 <= v.theta <= math.pi):
                        report("vector3:theta", dict(detail, observed=repr(v.theta), expected=th))
                elif name == "angles":
                    b = vec(V3, op["b"], floats)
                    c0 = float(fr(op["cosine"]))
                    if not approx(v.cosine(b), c0, 1.0) or not ang_close(v.angle(b), math.acos(c0)):
                        report("vector3:cosine-angle", dict(detail, observed=repr((v.cosine(b), v.angle(b)))))
                    if not approx(v.scalar_proj(b), float(fr(op["sproj"])), unit):
                        report("vector3:scalar_proj", dict(detail, observed=repr(v.scalar_proj(b))))
                    pv = v.proj(b)
                    if not isinstance(pv, V3) or not comps_ok(pv, op["proj"], False, unit):
                        report("vector3:proj", dict(detail, observed=repr(pv)))
                elif name == "setcoord":
                    i, val = op["i"] - 1, num(op["val"], floats)
                    if op["how"] == "attr":
                        setattr(v, "xyz"[i], val)
                    elif op["how"] == "set":
                        getattr(v, "set" + "xyz"[i])(val)
                    else:
                        v[i] = val
                elif name in ("setr", "setrho"):
                    setattr(v, "r" if name == "setr" else "rho", num(op["val"], floats))
                elif name in ("setphi", "settheta"):
                    setattr(v, "phi" if name == "setphi" else "theta", angle_of(op["ang"]))
                elif name == "from_spherical":
                    r, phi, th = num(op["r"], floats), angle_of(op["phi"]) % (2 * math.pi), angle_of(op["theta"])
                    w = V3.from_spherical(r, phi, th)
                    if not isinstance(w, V3) or not comps_ok(w, op["v"], False, max(1.0, abs(r))):
                        report("vector3:from_spherical", dict(detail, observed=repr(w)))
                    elif r > 0:
                        # round trip: spherical -> cartesian -> spherical
                        bad = not approx(w.r, r, 1.0) or not ang_close(w.theta, th)
                        if abs(math.sin(th)) > 1e-6:
                            bad = bad or not ang_close(w.phi, phi, 2 * math.pi)
                        if bad:
                            report("vector3:spherical-round-trip", dict(detail, observed=repr((w.r, w.phi, w.theta))))
                elif name == "rotate":
                    b = vec(V3, op["b"], floats)
                    w = v.rotate(angle_of(op["ang"]), b)
                    if not isinstance(w, V3) or w is v or not comps_ok(w, op["v"], False, unit):
                        report("vector3:rotate", dict(detail, observed=repr(w)))
                elif name == "isclose":
                    eps = 1e-9 if op["tol"] == "default" else 2.0 ** -10
                    t = float(fr(op["t"]))
                    b = v * (1 - t * eps)
                    mag = float(fr(op["mag"]))
                    rt = float(fr(op["relU"])) * eps
                    at = float(fr(op["absU"])) * eps * mag
                    if op["tol"] == "default":
                        calls = [lambda: v.isclose(b), lambda: b.isclose(v), lambda: M.isclose(v, b)]
                    else:
                        calls = [lambda: v.isclose(b, rt, at), lambda: b.isclose(v, rel_tol=rt, abs_tol=at),
                                 lambda: M.isclose(v, b, rel_tol=rt, abs_tol=at)]
                    # distance = tolerance exactly: decided exactly only while every number involved is exact
                    # (a vector of ints / dyadic floats with an integer magnitude)
                    boundary = op["t"] in ([1, 1], [3, 2]) or not exact_state and float(fr(op["t"])) in (1.0, 1.5)
                    if boundary and not exact_state:
                        calls = []
                    for ci, call in enumerate(calls):
                        got = call()
                        if got is not op["ok"]:
                            report("vector3:isclose:%s:t=%s:%s" % (op["tol"], op["t"], ["method", "reversed", "function"][ci]),
                                   dict(detail, observed=repr(got), other=repr(b)))
        except Exception as exc:   # noqa
            report("vector3:%s:raised:%s" % (name, exc_name(exc)), dict(detail, exception=repr(exc)))
            return
        # the vector after the operation (in-place / unchanged)
        if not comps_ok(v, op["a"], exact_state, unit):
            report("vector3:%s:vector-after" % name, dict(detail, observed=repr(v)))
            return


# --------------------------------------------------------------------------- C2S: recorded calls
def _rat(rnd):
    return Fraction(rnd.randint(-12, 12), rnd.choice([1, 1, 2, 4, 3, 5]))


def _pair(fr_):
    return [fr_.numerator, fr_.denominator]


def _rand_tree(rnd, depth):
    if depth == 0 or rnd.random() < 0.3:
        return rnd.choice([rnd.randint(-5, 5), rnd.randint(-9, 9) / 4.0, "s", None])
    xs = [_rand_tree(rnd, depth - 1) for _ in range(rnd.randint(0, 3))]
    return xs if rnd.random() < 0.6 else tuple(xs)


def _rand_regular(rnd, depth):
    if depth == 0:
        return [rnd.randint(-6, 6) / rnd.choice([1, 2, 4]) for _ in range(rnd.randint(0, 3))]
    return [_rand_regular(rnd, depth - 1) for _ in range(rnd.randint(1, 3))]


def record_calls(rnd, n, report):
    """Random calls of the real functions, encoded for Trace_MathFns.tla (one record per call)."""
    import lena.math as M
    import lena.structures as S
    from lena.math import vector3 as V3
    out = []
    for _ in range(n):
        kind = rnd.choice(["mesh", "refine", "clip", "flatten", "md_map", "check", "vector", "vector", "isclose"])
        try:
            if kind == "mesh":
                lo, hi = sorted([_rat(rnd), _rat(rnd)])
                if lo == hi:
                    continue
                nb = rnd.randint(1, 9)
                ok, val = outcome(lambda: M.mesh((float(lo), float(hi)), nb))
                if not ok:
                    report("random:mesh:raised:%s" % val, {"range": (str(lo), str(hi)), "n": nb})
                    continue
                if val[0] != float(lo) or val[-1] != float(hi):
                    # "in the given range": the end points themselves, not approximations of them
                    report("random:mesh:end-point-not-exact", {"range": (str(lo), str(hi)), "n": nb, "observed": repr(val)})
                    continue
                out.append({"k": "mesh", "lo": _pair(lo), "hi": _pair(hi), "n": nb, "v": [rat_or_skip(x) for x in val]})
            elif kind == "refine":
                pts = sorted(set(_rat(rnd) for _ in range(rnd.randint(1, 5))))
                r = rnd.randint(1, 5)
                ok, val = outcome(lambda: M.refine_mesh([float(x) for x in pts], r))
                if not ok:
                    report("random:refine_mesh:raised:%s" % val, {"arr": [str(x) for x in pts], "r": r})
                    continue
                out.append({"k": "refine", "arr": [_pair(x) for x in pts], "r": r, "v": [rat_or_skip(x) for x in val]})
            elif kind == "clip":
                a, lo, hi = _rat(rnd), _rat(rnd), _rat(rnd)
                ok, val = outcome(lambda: M.clip(float(a), (float(lo), float(hi))))
                out.append({"k": "clip", "a": _pair(a), "lo": _pair(lo), "hi": _pair(hi), "ok": ok,
                            "exc": "" if ok else val, "v": rat_or_skip(val) if ok else [0, 0]})
            elif kind == "flatten":
                obj = _rand_tree(rnd, 3)
                if not isinstance(obj, (list, tuple)):
                    continue
                ok, val = outcome(lambda: list(M.flatten(obj)))
                if not ok:
                    report("random:flatten:raised:%s" % val, {"array": repr(obj)})
                    continue
                out.append({"k": "flatten", "a": to_tree(obj), "v": [to_tree(x) for x in val]})
            elif kind == "md_map":
                obj = _rand_regular(rnd, rnd.randint(0, 2))
                F = rnd.choice(["neg", "dbl", "inc"])
                snap = copy.deepcopy(obj)
                ok, val = outcome(lambda: M.md_map(FUNCS[F], obj))
                if not ok or obj != snap:
                    report("random:md_map:%s" % ("raised:" + str(val) if not ok else "argument-modified"), {"array": repr(snap)})
                    continue
                out.append({"k": "md_map", "a": to_tree(obj), "F": F, "v": to_tree(val)})
            elif kind == "check":
                def arr():
                    return [rnd.randint(0, 4) for _ in range(rnd.randint(0, 4))]
                e = arr() if rnd.random() < 0.5 else [arr() for _ in range(rnd.randint(1, 3))]
                if rnd.random() < 0.3:
                    e = tuple(tuple(x) if isinstance(x, list) else x for x in e)
                ok, val = outcome(lambda: S.check_edges_increasing(e))
                out.append({"k": "check", "e": to_tree(e), "ok": ok, "exc": "" if ok else val})
            elif kind == "vector":
                def small():
                    return Fraction(rnd.randint(-8, 8), rnd.choice([1, 1, 2]))
                a = [small() for _ in range(3)]
                b = [small() for _ in range(3)]
                s = small()
                va, vb = V3(*[float(x) for x in a]), V3(*[float(x) for x in b])
                fs = float(s)

                def enc(w):
                    return [rat_or_skip(w[0]), rat_or_skip(w[1]), rat_or_skip(w[2])]
                out.append({"k": "vector", "a": [_pair(x) for x in a], "b": [_pair(x) for x in b], "s": _pair(s),
                            "add": enc(va + vb), "sub": enc(va - vb), "mul": enc(fs * va), "neg": enc(-va),
                            "dot": rat_or_skip(va.dot(vb)), "cross": enc(va.cross(vb)), "eq": va == vb,
                            "r2": rat_or_skip(va.getr2())})
            else:
                x = rnd.randint(-9, 9)
                tol = rnd.choice([{"kind": "default", "rel": [0, 0], "abs": [0, 1]}, {"kind": "rel", "rel": [1, 1024], "abs": [0, 1]},
                                  {"kind": "abs", "rel": [0, 1], "abs": [1, 4]}, {"kind": "both", "rel": [1, 1024], "abs": [1, 4]}])
                pk = rnd.choice(["none", "grid", "grid"] + ([] if tol["kind"] == "abs" else ["rel", "rel"]))
                pert = {"axis": 0, "pos": 0, "kind": "none", "amt": [0, 1]}
                if pk == "grid":
                    pert = {"axis": 1, "pos": 1, "kind": "grid", "amt": rnd.choice([[1, 8], [1, 4], [1, 2], [-1, 2], [-1, 8]])}
                elif pk == "rel":
                    pert = {"axis": 1, "pos": 1, "kind": "rel",
                            "amt": rnd.choice([[1, 2], [2, 1], [1, 1024], [3, 1]]) if tol["kind"] == "default"
                            else rnd.choice([[1, 2], [1, 1], [2, 1], [3, 4], [5, 4]])}
                e = rnd.choice([0, rnd.randint(-990, 990), rnd.randint(-40, 40)])
                m = 2.0 ** e
                X = x * m
                if pk == "none":
                    Y = X
                elif pk == "grid":
                    Y = (x + float(fr(pert["amt"]))) * m
                else:
                    eps = float(fr(tol["rel"])) if tol["kind"] != "default" else 1e-9
                    Y = x * m * (1 - float(fr(pert["amt"])) * eps)
                if rnd.random() < 0.5:
                    X, Y, swapped = Y, X, True
                else:
                    swapped = False
                if tol["kind"] == "default":
                    ok, val = outcome(lambda: M.isclose(X, Y))
                else:
                    ok, val = outcome(lambda: M.isclose(X, Y, rel_tol=float(fr(tol["rel"])), abs_tol=float(fr(tol["abs"])) * m))
                if not ok:
                    report("random:isclose:raised:%s" % val, {"a": repr(X), "b": repr(Y)})
                    continue
                out.append({"k": "isclose", "x": x, "pert": pert, "tol": tol, "ok": val, "exp": e, "swapped": swapped})
        except Skip:
            continue
    return out
