#!/bin/sh
# usage: tools/muttest.sh <ID> <file-rel-to-lena> <sed-expr> : apply a one-line mutation to a scratch copy and run the check
# (evidence of the run goes to a scratch directory: the evidence of the unchanged tree is not touched)
ID=$1; F=$2; EXPR=$3
D=$(mktemp -d /tmp/lm.XXXXXX)
cp -r /repo/lena $D/
sed -i "$EXPR" $D/lena/$F
if diff -q /repo/lena/$F $D/lena/$F >/dev/null; then echo "MUTATION DID NOT APPLY"; rm -rf $D; exit 3; fi
cd /verif
VERIF_EVIDENCE_DIR=$D/ev LENA_REPO=$D timeout 600 ./check $ID 2>&1 | grep -E "VIOLATION|key:|violations=|MACHINERY|KNOWN" | head -8
rm -rf $D
