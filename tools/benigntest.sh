#!/bin/sh
# usage: tools/benigntest.sh <NN|all> <ID>...   (false-alarm test)
# Applies a behaviour-preserving refactoring (benign/NN.diff) to a scratch copy of /repo (outside /repo
# and /verif), runs ./check <ID> against the copy and reports any exit code other than 0.
# Evidence of the unchanged tree is preserved; the copy is removed.
P=$1; shift
cd /verif
if [ "$P" = all ]; then set -- "$@"; LIST=$(ls benign/*.diff); else LIST=benign/$P.diff; fi
RC=0
for diff in $LIST; do
  D=$(mktemp -d /tmp/benign.XXXXXX)
  git -C /repo archive HEAD | tar -x -C $D
  if ! (cd $D && patch -p1 -s < /verif/$diff); then echo "$diff: DOES NOT APPLY (tree changed since the audit)"; rm -rf $D; continue; fi
  for ID in "$@"; do
    B=$(mktemp -d /tmp/evb.XXXXXX)
    case $ID in X*) EV=evidence/extra/$ID.json;; *) EV=evidence/$ID.json;; esac

    VERIF_EVIDENCE_DIR=$B/ev LENA_REPO=$D timeout 3000 ./check $ID --tier quick > $B/out.txt 2>&1; rc=$?
    echo "$diff $ID exit=$rc"
    if [ $rc != 0 ]; then RC=1; grep -E "VIOLATION|MACHINERY" $B/out.txt | head -3; fi

    rm -rf $B
  done
  rm -rf $D
done
exit $RC
