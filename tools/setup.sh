#!/bin/sh
# Offline setup: nothing is compiled.  Verify the tools the checks need and create scratch dirs.
set -e
cd "$(dirname "$0")/.."
mkdir -p build evidence replays
command -v java >/dev/null
test -f /opt/veriftools/tla/tla2tools.jar
/venv/bin/python -c "import sys; sys.path.insert(0, '${LENA_REPO:-/repo}'); import lena, hypothesis, jinja2"
chmod +x check
echo setup ok
