#!/usr/bin/env python3
"""Regenerate the generated parts of DESIGN.md section 9 (between <!-- GEN:x --> markers) from
known_findings.json and tools/seed_meta.py."""
import json, os, re, sys, importlib.util
HERE = os.path.dirname(os.path.dirname(os.path.abspath(__file__)))
spec = importlib.util.spec_from_file_location("seed_meta", os.path.join(HERE, "tools", "seed_meta.py"))
sm = importlib.util.module_from_spec(spec); spec.loader.exec_module(sm)

def esc(s):
    return str(s).replace("|", "\\|").replace("\n", " ")

def findings():
    kf = json.load(open(os.path.join(HERE, "known_findings.json")))["findings"]
    out = ["| property | status | commit | what failed |", "|---|---|---|---|"]
    for f in kf:
        out.append("| %s | %s | %s | %s |" % (f["property"], f["status"], f.get("commit", "-"), esc(f["what"])[:400]))
    return "\n".join(out)

def seeds():
    out = ["| id | property | needs to manifest | first run | now |", "|---|---|---|---|---|"]
    def key(k):
        p, n = k.split("-"); return (p, int(n))
    miss = tot = 0
    for k in sorted(sm.T, key=key):
        prop, needs, first, final = sm.T[k]
        tot += 1
        if first.startswith("missed"):
            miss += 1
        out.append("| %s | %s | %s | %s | %s |" % (k, prop, esc(needs), esc(first), esc(final)))
    out.append("")
    out.append("%d seeded changes; %d were missed on first exposure." % (tot, miss))
    return "\n".join(out)

def main():
    p = os.path.join(HERE, "DESIGN.md")
    s = open(p).read()
    for name, gen in (("findings", findings), ("seeds", seeds)):
        a, b = "<!-- GEN:%s -->" % name, "<!-- /GEN:%s -->" % name
        if a in s and b in s:
            s = s[:s.index(a) + len(a)] + "\n" + gen() + "\n" + s[s.index(b):]
    open(p, "w").write(s)
    print("DESIGN.md tables regenerated")
if __name__ == "__main__":
    main()
