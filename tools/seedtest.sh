#!/bin/sh
# usage: tools/seedtest.sh <ID> <dir with patch.diff [demo.py]> [--confirm] [--tier T]
# Applies a seeded change to a scratch copy of /repo (outside /repo and /verif), optionally confirms it
# (unedited test-suite passes, demo fails with / passes without), runs ./check <ID> against the copy,
# and removes the copy.  Evidence of the unchanged tree is preserved.
ID=$1; M=$2; shift 2
CONFIRM=0; TIER=quick
while [ $# -gt 0 ]; do case $1 in --confirm) CONFIRM=1;; --tier) TIER=$2; shift;; esac; shift; done
D=$(mktemp -d /tmp/seed.XXXXXX)
git -C /repo archive HEAD | tar -x -C $D
if ! (cd $D && patch -p1 -s < $M/patch.diff); then echo "PATCH DID NOT APPLY"; rm -rf $D; exit 3; fi
if [ $CONFIRM = 1 ]; then
  (cd $D && PYTHONPATH=$D timeout 900 /venv/bin/python -m pytest -q -p no:cacheprovider -x 2>&1 | tail -1)
  if [ -f $M/demo.py ]; then
    (cd /tmp && PYTHONPATH=/repo timeout 300 /venv/bin/python $M/demo.py >/dev/null 2>&1; echo "demo on clean tree: exit $?")
    (cd /tmp && PYTHONPATH=$D timeout 300 /venv/bin/python $M/demo.py >/dev/null 2>&1; echo "demo on mutated tree: exit $?")
  fi
fi
cd /verif
B=$(mktemp -d /tmp/evb.XXXXXX)
VERIF_EVIDENCE_DIR=$B/ev LENA_REPO=$D timeout 3000 ./check $ID --tier $TIER > $B/out.txt 2>&1; RC=$?
grep -E "VIOLATION|key:|MACHINERY" $B/out.txt | head -6; echo "known-finding lines: $(grep -c KNOWN-FINDING $B/out.txt)"
tail -1 $B/out.txt
echo "check exit: $RC"
# (evidence of this run was written to $B/ev, not to /verif/evidence)
rm -rf $D $B
