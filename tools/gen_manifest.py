#!/usr/bin/env python3
"""Regenerate MANIFEST.json (python3 tools/gen_manifest.py).

A property is claimed iff it is listed in tools/claimed.txt and lenaverif/props/meta/<ID>.json exists (keys: technique, level_text,
level_note, design_ref, category) together with lenaverif/props/<id>.py.  Everything else is listed
under not_applicable with the reason from tools/not_applicable.json (or "not built yet").
"""
import json, os
HERE = os.path.dirname(os.path.dirname(os.path.abspath(__file__)))
META = os.path.join(HERE, "lenaverif", "props", "meta")
IDS = [json.loads(l)["id"] for l in open(os.path.join(HERE, "properties.jsonl")) if l.strip()]
NOT_YET = "check not built yet in this round (planned, see DESIGN.md section 5)"


def main():
    checks, claimed = [], []
    na_reasons = {}
    p = os.path.join(HERE, "tools", "not_applicable.json")
    if os.path.exists(p):
        na_reasons = json.load(open(p))
    hooks_p = os.path.join(HERE, "tools", "hooks.json")
    hook_commits = json.load(open(hooks_p)) if os.path.exists(hooks_p) else []
    accepted = open(os.path.join(HERE, "tools", "claimed.txt")).read().split()
    for pid in IDS:
        if pid not in accepted:      # built but not yet reviewed/accepted by the orchestrating session
            continue
        mp = os.path.join(META, pid + ".json")
        if not (os.path.exists(mp) and os.path.exists(os.path.join(HERE, "lenaverif", "props", pid.lower() + ".py"))):
            continue
        m = json.load(open(mp))
        claimed.append(pid)
        checks.append({
            "property_id": pid,
            "quick_cmd": "./check %s --tier quick" % pid,
            "thorough_cmd": "./check %s --tier thorough" % pid,
            "evidence_file": "evidence/%s.json" % pid,
            "replay_cmd_template": "./check %s --replay {path}" % pid,
            "engine": "tlc+replay",
            "level_claimed": {"category": m.get("category", "model_checking"), "text": m["level_text"],
                              "design_ref": m.get("design_ref", "DESIGN.md 5 " + pid)},
            "level_note": m["level_note"],
            "technique": m["technique"],
        })
    na = [{"property_id": pid, "reason": na_reasons.get(pid, NOT_YET)} for pid in IDS if pid not in claimed]
    extras = sorted(f[:-5] for f in os.listdir(META) if f.startswith("X") and f.endswith(".json")
                    and os.path.exists(os.path.join(HERE, "lenaverif", "props", f[:-5].lower() + ".py")))
    man = {
        "version": 1,
        "setup_cmd": "sh tools/setup.sh",
        "hooks": {
            "guard": "LENA_VERIF",
            "enable": "no source hooks: the harness observes lena from outside (instrumented iterators, tagged elements, "
                      "audit hooks, stub converters); LENA_REPO selects the tree (default /repo)",
            "baseline_off_cmd": "cd /repo && /venv/bin/python -m pytest -ra -q -p no:cacheprovider --timeout=900 --continue-on-collection-errors",
            "source_commits": hook_commits,
            "add_only": True,
        },
        "engines": [{
            "name": "tlc+replay", "path": "lenaverif/",
            "serves_properties": claimed,
            "kind_free_text": "TLA+ specifications in spec/ checked with TLC 1.8; behaviours exported as JSON and replayed on the "
                              "real lena objects (spec->code); behaviour recorded from lena validated by Trace_*.tla (code->spec)",
        }],
        "checks": checks,
        "notes": "All checks run with /venv/bin/python against $LENA_REPO (default /repo) working tree; nothing is compiled. "
                 "The specification library also covers behaviour beyond the listed properties: extra checks "
                 + ", ".join(extras) + " (`./check Xnn --tier quick|thorough`, statements in lenaverif/props/meta/Xnn.json, "
                 "evidence in evidence/extra/, see DESIGN.md 9.1); they are not MANIFEST checks because the property list is fixed.",
    }
    if extras:
        man["engines"].append({
            "name": "tlc+replay (extras)", "path": "lenaverif/props/x*.py", "serves_properties": [],
            "kind_free_text": "same technique applied to statements taken from lena's documentation for parts of the library "
                              "that no listed property names: " + "; ".join(
                                  "%s %s" % (x, json.load(open(os.path.join(META, x + ".json"))).get("title", "")) for x in extras)})
    if na:
        man["not_applicable"] = na
    with open(os.path.join(HERE, "MANIFEST.json"), "w") as f:
        json.dump(man, f, indent=1)
    print("MANIFEST.json: %d checks, %d not_applicable" % (len(checks), len(na)))


if __name__ == "__main__":
    main()
