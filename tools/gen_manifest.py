#!/usr/bin/env python3
"""Regenerate MANIFEST.json from the table below (python3 tools/gen_manifest.py)."""
import json, os
HERE = os.path.dirname(os.path.dirname(os.path.abspath(__file__)))
TITLES = {}
for line in open(os.path.join(HERE, "properties.jsonl")):
    p = json.loads(line)
    TITLES[p["id"]] = p["title"]

# id -> (technique, level text, level note, design ref)
CHECKS = {
 "C17": ("TLA+ pull/yield machine of Slice (7 negative-index branches + islice) checked by TLC against PySlice; "
         "all terminal states exported and replayed on lena.flow.Slice.run/fill_into; recorded runs validated by Trace_Slice.tla",
         "TLC proves machine = Python slicing for start,stop in {None,-7..7}, step in {None,1..4}, n<=10 (14080 scenarios) and "
         "every one of them is executed on the real Slice (run, three argument forms, fill_into with stop-safety), plus "
         "Reverse/Chain/CountFrom/RunningChunkBy machines; random larger cases are trace-validated.",
         "Trusts TLC, the JSON export and the replay harness; flows are integer ranges (values identify positions).",
         "DESIGN.md 5 C17"),
 "C01": ("TLA+ coroutine machine of a Sequence (Flow.tla) = declarative composition Sem (FlowSem.tla) checked by TLC; "
         "all terminal states replayed on real Sequence/nested Sequence/Source in every bracketing; random programs trace-validated (Trace_Flow.tla)",
         "TLC checks machine output = left-to-right composition, regrouping, empty identity and build-time rejection for all programs "
         "<= 2 (thorough 3) stages over a 19-stage alphabet x flows <= 4 x {bare, pairs}; each scenario is executed on the real code in "
         "every bracketing and as a Source tail; 300+ random deeper programs are validated against Sem by TLC.",
         "Contexts are abstracted to their top-level keys; harness callables (inc/dbl/tag) stand for user callables.",
         "DESIGN.md 5 C01"),
 "C02": ("TLC: the Flow.tla coroutine machine is the laziest allowed schedule (pulls = MinNeed at every delivery, no work before demand, "
         "buffer bounds, liveness of Slice(n) after an infinite source); real pipelines on an instrumented iterator must never pull more "
         "than the machine at any delivery / stop point; negative Slice bound through Slice.tla; pull vectors trace-validated",
         "Exhaustive over streaming programs <= 2 (thorough 3) stages x finite and infinite sources x every consumer stop point; real "
         "pull counts compared with the machine's at each delivery (inequality), weak-reference liveness for negative Slice.",
         "The laziest-allowed schedule is the spec machine (islice consumes to stop, Count one look-ahead, Split one block).",
         "DESIGN.md 5 C02"),
 "C03": ("TLA+ scheduler machine of Split.run (active list + index, Split.tla) = declarative block/branch semantics SplitSem checked by TLC "
         "with bufsize-independence, once-only and accounting invariants; every scenario replayed on the real Split (both copy_buf), "
         "common-type methods and Zip along SplitCT.tla behaviours; random configurations trace-validated (Trace_Split.tla)",
         "Exhaustive over branch lists <= 2 (thorough 3; 4 by simulation) of 13 tagged branch kinds (Source, fill/compute and fill/request with "
         "LenaStopFill at every index, map, filter, run element with end marker) x flows <= 4 (6) x bufsize {1,2,3,5,1000,None}; "
         "each replayed on lena.core.Split.run; 600+ random 5-branch configurations validated by TLC.",
         "Branches are harness elements with tagged outputs; laziness inside a block belongs to C02, FillRequest internals to C16.",
         "DESIGN.md 5 C03"),
}
NOT_YET = "check not built yet in this round (planned, see DESIGN.md section 5)"

def main():
    checks = []
    for pid in sorted(CHECKS):
        tech, text, note, ref = CHECKS[pid]
        checks.append({
            "property_id": pid,
            "quick_cmd": "./check %s --tier quick" % pid,
            "thorough_cmd": "./check %s --tier thorough" % pid,
            "evidence_file": "evidence/%s.json" % pid,
            "replay_cmd_template": "./check %s --replay {path}" % pid,
            "engine": "tlc+replay",
            "level_claimed": {"category": "model_checking", "text": text, "design_ref": ref},
            "level_note": note,
            "technique": tech,
        })
    na = [{"property_id": pid, "reason": NOT_YET} for pid in sorted(TITLES) if pid not in CHECKS]
    man = {
        "version": 1,
        "setup_cmd": "sh tools/setup.sh",
        "hooks": {
            "guard": "LENA_VERIF",
            "enable": "no source hooks: the harness observes lena from outside (instrumented iterators, tagged elements, "
                      "audit hooks, stub converters); LENA_REPO selects the tree (default /repo)",
            "baseline_off_cmd": "cd /repo && /venv/bin/python -m pytest -ra -q -p no:cacheprovider --timeout=900 --continue-on-collection-errors",
            "source_commits": [],
            "add_only": True,
        },
        "engines": [{
            "name": "tlc+replay", "path": "lenaverif/",
            "serves_properties": sorted(CHECKS),
            "kind_free_text": "TLA+ specifications in spec/ checked with TLC 1.8; behaviours exported as JSON and replayed on the "
                              "real lena objects (spec->code); behaviour recorded from lena validated by Trace_*.tla (code->spec)",
        }],
        "checks": checks,
        "not_applicable": na,
        "notes": "All checks run with /venv/bin/python against $LENA_REPO (default /repo) working tree; nothing is compiled.",
    }
    with open(os.path.join(HERE, "MANIFEST.json"), "w") as f:
        json.dump(man, f, indent=1)
    print("MANIFEST.json: %d checks, %d not_applicable" % (len(checks), len(na)))

if __name__ == "__main__":
    main()
