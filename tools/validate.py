#!/usr/bin/env python3
"""python3-vt tools/validate.py : validate MANIFEST.json and every evidence file against the schemas."""
import json, sys, glob, os
import jsonschema
HERE = os.path.dirname(os.path.dirname(os.path.abspath(__file__)))
bad = 0
jsonschema.validate(json.load(open(HERE + "/MANIFEST.json")), json.load(open("/root/.vp/MANIFEST.schema.json")))
es = json.load(open("/root/.vp/EVIDENCE.schema.json"))
for f in sorted(glob.glob(HERE + "/evidence/*.json")):
    try:
        jsonschema.validate(json.load(open(f)), es)
    except Exception as e:
        bad += 1
        print("INVALID", f, str(e)[:300])
print("manifest valid; evidence files checked:", len(glob.glob(HERE + "/evidence/*.json")), "invalid:", bad)
sys.exit(1 if bad else 0)
