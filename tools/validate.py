#!/usr/bin/env python3
"""python3-vt tools/validate.py : validate MANIFEST.json and every evidence file against the schemas."""
import json, sys, glob, os
import jsonschema
HERE = os.path.dirname(os.path.dirname(os.path.abspath(__file__)))
bad = 0
man = json.load(open(HERE + "/MANIFEST.json"))
jsonschema.validate(man, json.load(open("/root/.vp/MANIFEST.schema.json")))
es = json.load(open("/root/.vp/EVIDENCE.schema.json"))
files = sorted(glob.glob(HERE + "/evidence/*.json")) + sorted(glob.glob(HERE + "/evidence/extra/*.json"))
for f in files:
    try:
        jsonschema.validate(json.load(open(f)), es)
    except Exception as e:
        bad += 1
        print("INVALID", f, str(e)[:300])
# every claimed check has its evidence file and the ids agree
for c in man["checks"]:
    p = os.path.join(HERE, c["evidence_file"])
    if not os.path.exists(p):
        bad += 1
        print("MISSING", c["evidence_file"])
    elif json.load(open(p)).get("property_id") != c["property_id"]:
        bad += 1
        print("WRONG ID", c["evidence_file"])
# known findings file is well formed
kf = json.load(open(HERE + "/known_findings.json"))
for k in kf["findings"]:
    assert k["status"] in ("known", "fixed") and k.get("key") and k.get("property"), k
print("manifest valid; evidence files checked: %d invalid: %d; findings: %d fixed, %d known" % (
    len(files), bad, sum(1 for k in kf["findings"] if k["status"] == "fixed"),
    sum(1 for k in kf["findings"] if k["status"] == "known")))
sys.exit(1 if bad else 0)
