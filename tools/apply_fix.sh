#!/bin/sh
# usage: tools/apply_fix.sh <diff> "<commit message starting with fix:>"
# applies a reviewed repair to /repo, runs the unedited repository suite, commits it as one unguarded commit
D=$1; MSG=$2
cd /repo || exit 2
git apply --check "$D" || { echo "does not apply"; exit 3; }
git apply "$D"
if ! timeout 900 /venv/bin/python -m pytest -q -p no:cacheprovider -x 2>&1 | tail -2; then echo pytest failed; fi
R=$(timeout 900 /venv/bin/python -m pytest -q -p no:cacheprovider 2>&1 | tail -1)
echo "$R"
case "$R" in *failed*|*error*) echo "SUITE NOT GREEN - reverting"; git checkout -- .; exit 4;; esac
git add -A lena && git commit -qm "$MSG" && git log --oneline | head -1
